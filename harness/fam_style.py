"""C17: each generated story is printed in many combinations of surface styles (legacy/@ syntax,
# comment lines, trailing // comments per kind of line, body indentation 0/2/4/tab); the REAL compiler
must produce the identical story for all of them.  Plus string-level correspondence of the comment
stripper and the dedenter with their Lean models."""
import json
import random

from common import rng_for, run_driver, chash, quiet
import corr_play
import gen_story
import framework

TRAILING_OK = ["line", "stmt", "choice", "header", "ifhead", "forhead", "render", "input",
               "endif", "py", "endpy", "join", "jump", "hook"]
ALPHA = list("ab =/\\'\"{}[]>-+*~@#:^\t") + ["//", "\\//", "//=", " // "]


def styles_for(r, n):
    out = []
    for _ in range(n):
        st = {"legacy": r.random() < 0.5, "indent": r.choice(["", "  ", "    ", "\t"]),
              "comment_lines": r.choice([0, 0.2, 0.5]),
              "trailing": set(k for k in TRAILING_OK if r.random() < 0.5), "join_block_comments": r.random() < 0.6,
              "top_comment": r.random() < 0.4, "blank_ws": r.random() < 0.4, "py_indent": r.random() < 0.4, "comment_flush": r.random() < 0.4,
              "rng": random.Random(r.randrange(1 << 30))}
        out.append(st)
    return out


def describe(st):
    return {"legacy": st["legacy"], "indent": st["indent"], "comment_lines": st["comment_lines"], "trailing": sorted(st["trailing"]),
            "join_block_comments": st.get("join_block_comments", False), "top_comment": st.get("top_comment"),
            "blank_ws": st.get("blank_ws"), "py_indent": st.get("py_indent"), "comment_flush": st.get("comment_flush")}


def compile_outcome(src):
    try:
        return ("ok", corr_play.compile_source(src))
    except Exception as e:  # noqa
        return ("raise", f"{type(e).__name__}: {str(e)[:150]}")


def first_story_diff(a, b, path=""):
    if type(a) != type(b):
        return path
    if isinstance(a, dict):
        for k in sorted(set(a) | set(b)):
            if k not in a or k not in b:
                return path + "/" + k
            d = first_story_diff(a[k], b[k], path + "/" + k)
            if d:
                return d
        return None
    if isinstance(a, list):
        if len(a) != len(b):
            return path + "/len"
        for i, (x, y) in enumerate(zip(a, b)):
            d = first_story_diff(x, y, f"{path}/{i}")
            if d:
                return d
        return None
    return None if a == b else path


def _chunk(arg):
    seed, idxs, n_styles = arg
    out = {"cases": 0, "variants": 0, "fails": [], "samples": [], "hashes": [], "known": 0}
    for idx in idxs:
        r = rng_for(seed, "style", idx)
        ast = gen_story.generate(r.randrange(1 << 30), dict(comments=0, faults=0.05, stmt_faults=0.0, py_blocks=0.4, join=0.4, hooks=0.4, params=0.4, colon_conds=0.6, imports=0.3))
        base_src = gen_story.print_story(ast, {"comments": False})
        base = compile_outcome(base_src)
        if base[0] != "ok":
            continue
        out["cases"] += 1
        for st in styles_for(r, n_styles):
            src = gen_story.print_story(ast, st)
            if r.random() < 0.25:
                # an earlier compilation in this process that ended badly (inside an open Python block, an open @if): it must
                # leave nothing behind
                compile_outcome(r.choice([":: Draft\n@py:\nx = 1\n", ":: Draft\n<<py\nx = 1\n", ":: Draft\n@if x:\n  @py:\n  y = 2\n",
                                          ":: Draft\n+ [a] -> @join\n    @py:\n"]))
            got = compile_outcome(src)
            out["variants"] += 1
            if got[0] != "ok":
                out["fails"].append({"cls": None, "what": f"style {describe(st)} does not compile: {got[1]}", "family": "c17-style",
                                     "source": src, "base_source": base_src})
            elif got[1] != base[1]:
                out["fails"].append({"cls": None, "what": f"style {describe(st)} compiles to a different story (first difference at {first_story_diff(base[1], got[1])})",
                                     "family": "c17-style", "source": src, "base_source": base_src})
            out["hashes"].append(chash(src))
        if not out["samples"]:
            out["samples"].append({"base": base_src[:800], "variant": gen_story.print_story(ast, styles_for(rng_for(seed, "s", idx), 1)[0])[:800]})
    return out


PY_LINES = ["x = 1", "y = x + 1", "if x:", "    y = 2", "s = \"\"\"a", "b\"\"\"", "t = (1,", "2)", "# a comment", "z = 4 // 2", "d = {'a': 1}", "",
            "  ", "for i in range(2):", "        z = i", "pass", "w = 'it''s'", "q = [", "]", "u = x  # note",
            # body lines that begin like a block closer: a right shift continued on the next line, a doctest prompt in a docstring
            "v = (256", ">> 4)", "def f():", "    \"\"\"", "    >>> f()", ">>> x", "    \"\"\"", "@endpy_not = 1", ">>= 1"]


def py_body_family(rep, n):
    """C17 on Python blocks: the legacy <<py ... >> form and the @py: ... @endpy form of the SAME body (any mix of
    indentations, including lines less indented than the first, blank lines, whitespace-only lines) compile to the same
    code, at passage level and inside an indented @if body"""
    bad = 0
    for idx in range(n):
        r = rng_for(rep.seed, "pybody", idx)
        body = [r.choice(["", "  ", "    ", "\t", "      "]) + r.choice(PY_LINES) for _ in range(r.randint(1, 6))]
        if not any(l.strip() for l in body):
            body.append("    x = 1")
        for pad in ("", "  "):
            forms = {}
            for name, (op, cl) in {"legacy": ("<<py", ">>"), "at": ("@py:", "@endpy")}.items():
                blk = [pad + op] + [pad + l for l in body] + [pad + cl]
                src = ":: Start\n" + ("@if True:\n" + "\n".join(blk) + "\n@endif\n" if pad else "\n".join(blk) + "\n") + "done\n"
                forms[name] = (src, compile_outcome(src))
            (s1, o1), (s2, o2) = forms["legacy"], forms["at"]
            if o1 != o2:
                bad += 1
                what = (f"first difference at {first_story_diff(o1[1], o2[1])}" if o1[0] == o2[0] == "ok" else f"{o1[0]} vs {o2[0]}: {o1[1] if o1[0] != 'ok' else o2[1]}")
                rep.violations.append({"cls": None, "family": "c17-pybody", "what": "the <<py ... >> form and the @py: ... @endpy form of the same body compile differently: " + str(what)[:200],
                                       "source": s1, "base_source": s2})
    rep.coverage.setdefault("families", {})["c17-pybody"] = {"cases": n * 2, "differing": bad}
    rep.coverage["evaluations"] = rep.coverage.get("evaluations", 0) + n * 2


ML_STMTS = [["~ x = [", "    1,", "    2", "]"], ["~ d = {", "  'a': (1,", "        2),", "}"], ["~ y = (1 +", "2)"], ["~ q = [", "]", "after {q}"],
            ["~ z = [  // c", "  1]  "], ["~ w = f(", "    a=[", "      1],", ")"]]


def multiline_stmt_family(rep, n):
    """C17 on multi-line ~ statements inside block bodies: indenting the whole body by any uniform amount compiles to the
    identical story (the continuation lines are part of the body)"""
    bad = 0
    done = 0
    for idx in range(n):
        r = rng_for(rep.seed, "mlstmt", idx)
        body = ["before"] * r.randint(0, 1) + r.choice(ML_STMTS) + ["text {x}"] * r.randint(0, 1)
        if r.random() < 0.4:
            body += r.choice(ML_STMTS)
        kind = r.choice(["if", "for", "if-in-for", "for-in-if", "if-else"])
        def wrap(pad):
            b = [pad + l for l in body]
            if kind == "if":
                ls = ["@if True:"] + b + ["@endif"]
            elif kind == "for":
                ls = ["@for i in [1]:"] + b + ["@endfor"]
            elif kind == "if-in-for":
                ls = ["@for i in [1]:", pad + "@if True:"] + [pad + l for l in b] + [pad + "@endif", "@endfor"]
            elif kind == "for-in-if":
                ls = ["@if True:", pad + "@for i in [1]:"] + [pad + l for l in b] + [pad + "@endfor", "@endif"]
            else:
                ls = ["@if False:", pad + "no", "@else:"] + b + ["@endif"]
            return ":: Start\n~ x = 0\n~ a = 1\n~ f = len\n" + "\n".join(ls) + "\nend\n"
        base_src = wrap("")
        base = compile_outcome(base_src)
        for pad in ("  ", "    ", "\t"):
            src = wrap(pad)
            got = compile_outcome(src)
            done += 1
            if got != base:
                bad += 1
                what = (f"first difference at {first_story_diff(base[1], got[1])}" if base[0] == got[0] == "ok" else f"{base[0]} vs {got[0]}: {got[1] if got[0] != 'ok' else base[1]}")
                rep.violations.append({"cls": None, "family": "c17-mlstmt", "what": f"a {kind} body with a multi-line ~ statement compiles differently when indented by {pad!r}: " + str(what)[:200],
                                       "source": src, "base_source": base_src})
    rep.coverage.setdefault("families", {})["c17-mlstmt"] = {"cases": done, "differing": bad}
    rep.coverage["evaluations"] = rep.coverage.get("evaluations", 0) + done


def string_level(rep, seed, n):
    """strip_inline_comment and detect_and_strip_indentation vs their Lean models on random strings"""
    from bardic.compiler.parsing.preprocessing import strip_inline_comment
    from bardic.compiler.parsing.indentation import detect_and_strip_indentation
    r = rng_for(seed, "strings")
    cases, exp = [], []
    for i in range(n):
        line = "".join(r.choice(ALPHA) for _ in range(r.randint(0, 14)))
        cases.append({"kind": "strip", "id": i, "line": line})
        exp.append(list(strip_inline_comment(line)))
    for i in range(n // 2):
        lines = []
        for _ in range(r.randint(0, 6)):
            lines.append(r.choice(["", " ", "  ", "\t", "    "]) * r.randint(0, 2) + r.choice(["", "x", "a b", "~ y = 1", " "]))
        cases.append({"kind": "dedent", "id": n + i, "lines": lines})
        exp.append(detect_and_strip_indentation(list(lines)))
    outs = run_driver(cases)
    bad = 0
    for c, e, m in zip(cases, exp, outs):
        got = [m.get("content"), m.get("comment")] if c["kind"] == "strip" else m.get("lines")
        if got != e:
            bad += 1
            rep.disagreements.append({"family": "c17-strings", "detail": (c["kind"], got, e), "case": c})
    rep.coverage.setdefault("families", {})["c17-strings"] = {"cases": len(cases), "agree": len(cases) - bad}
    rep.coverage["evaluations"] = rep.coverage.get("evaluations", 0) + len(cases)
    rep.coverage["traces_validated_against_impl"] = rep.coverage.get("traces_validated_against_impl", 0) + len(cases) - bad


def style_family(rep, n_cases, n_styles, known_classes=(), nproc=16):
    chunk = max(1, n_cases // (nproc * 2))
    idxs = list(range(n_cases))
    outs = framework.pmap(_chunk, [(rep.seed, idxs[i:i + chunk], n_styles) for i in range(0, n_cases, chunk)], nproc)
    tot = {"cases": 0, "variants": 0}
    hashes = set()
    for o in outs:
        tot["cases"] += o["cases"]
        tot["variants"] += o["variants"]
        rep.violations.extend(o["fails"])
        if len(rep.samples) < 2:
            rep.samples.extend(o["samples"][:1])
        hashes.update(o["hashes"])
    cov = rep.coverage
    cov["evaluations"] = cov.get("evaluations", 0) + tot["variants"]
    cov["programs"] = cov.get("programs", 0) + tot["variants"]
    cov["distinct_nontrivial"] = cov.get("distinct_nontrivial", 0) + len(hashes)
    cov.setdefault("families", {})["c17-style"] = tot
    return tot
