"""dev: run the text family standalone and print disagreements"""
import sys, json
import framework, fam_text
class R(framework.Report):
    pass
rep = framework.Report("C11", "quick", int(sys.argv[1]) if len(sys.argv) > 1 else 0)
n = int(sys.argv[2]) if len(sys.argv) > 2 else 200
dis, total = fam_text.text_family(rep, n, n, n)
print(json.dumps(rep.coverage["families"], indent=1))
print("disagreements:", total, "infra:", rep.infra_errors[:2])
for d in dis:
    print("-----", d["family"], d["label"], "::", d["what"])
    print(d["source"][:1500])
    print("real:", d["real"], "model:", d["model"])
