"""Check framework: Lean obligations (build + axiom audit), families, verdicts, evidence, known findings."""
import fcntl
import json
import multiprocessing as mp
import os
import re
import subprocess
import sys
import time

from common import VERIF, LEAN_DIR, REPO, chash

ALLOWED_AXIOMS = {"propext", "Classical.choice", "Quot.sound"}
FORBIDDEN = re.compile(r"\b(sorry|admit|native_decide|bv_decide|implemented_by|unsafe)\b|^\s*axiom\s|maxHeartbeats\s+0")

TRUSTED_BASE = [
    "Lean 4.33 kernel; axioms limited to propext / Classical.choice / Quot.sound (audited with #print axioms on every run)",
    "hand-written Lean model of the code (lean/Bardic), tied to /repo by the correspondence run of this check",
    "correspondence harness (harness/*.py): generators, canonicaliser, comparison; coverage is measured and printed here",
    "CPython itself (eval/exec/format/str/json/copy.deepcopy/re/ast/pathlib) is modelled, not verified; author code enters the engine theorems only through the abstract parameter Sem",
]


def _strip_comments(text):
    text = re.sub(r"/-.*?-/", "", text, flags=re.S)
    return re.sub(r"--.*", "", text)


def lean_sources():
    out = []
    for root in ("Bardic", "Proofs"):
        for dp, _, fs in os.walk(os.path.join(LEAN_DIR, root)):
            for f in fs:
                if f.endswith(".lean"):
                    out.append(os.path.join(dp, f))
    out.append(os.path.join(LEAN_DIR, "Main.lean"))
    return out


def forbidden_tokens():
    hits = []
    for p in lean_sources():
        body = _strip_comments(open(p).read())
        for i, line in enumerate(body.splitlines(), 1):
            if FORBIDDEN.search(line):
                hits.append(f"{os.path.relpath(p, LEAN_DIR)}:{i}: {line.strip()[:80]}")
    return hits


def lean_obligations(prop, theorems, extra_build=()):
    """Build the Lean project and audit the axioms of `theorems`.

    Returns dict(ok, obligations, discharged, broken=[...], log)."""
    t0 = time.time()
    res = {"ok": True, "obligations": len(theorems), "discharged": 0, "broken": [], "axioms": {}, "log": ""}
    os.makedirs(os.path.join(LEAN_DIR, ".lake"), exist_ok=True)
    lock = open(os.path.join(LEAN_DIR, ".lake", "verif.lock"), "w")
    fcntl.flock(lock, fcntl.LOCK_EX)
    try:
        # tables re-extracted from the current source tree
        try:
            import extract
            extract.regenerate()
        except Exception as e:  # noqa
            res["ok"] = False
            res["broken"].append(f"extract: {e}")
        p = subprocess.run(["lake", "build", "Bardic", "Proofs", "driver"], cwd=LEAN_DIR,
                           stdout=subprocess.PIPE, stderr=subprocess.STDOUT, timeout=3600)
        log = p.stdout.decode(errors="replace")
        res["log"] = log[-4000:]
        if p.returncode != 0:
            res["ok"] = False
            errs = re.findall(r"error: (\S+\.lean):(\d+)", log)
            res["broken"].append("lake build failed: " + ", ".join(sorted({f"{a}:{b}" for a, b in errs}))[:400])
        hits = forbidden_tokens()
        if hits:
            res["ok"] = False
            res["broken"].append("forbidden tokens: " + "; ".join(hits[:5]))
        if p.returncode == 0 and theorems:
            audit = os.path.join(LEAN_DIR, ".lake", f"audit_{prop}.lean")
            with open(audit, "w") as f:
                f.write("import Proofs\n" + "".join(f"#print axioms {t}\n" for t in theorems))
            q = subprocess.run(["lake", "env", "lean", audit], cwd=LEAN_DIR, stdout=subprocess.PIPE,
                               stderr=subprocess.STDOUT, timeout=1800)
            out = q.stdout.decode(errors="replace")
            for t in theorems:
                m = re.search(r"'" + re.escape(t) + r"' (depends on axioms: \[([^\]]*)\]|does not depend on any axioms)", out, re.S)
                if not m:
                    res["ok"] = False
                    res["broken"].append(f"theorem missing or not checked: {t}")
                    continue
                axs = set(a.strip() for a in (m.group(2) or "").replace("\n", " ").split(",") if a.strip())
                res["axioms"][t] = sorted(axs)
                if axs - ALLOWED_AXIOMS:
                    res["ok"] = False
                    res["broken"].append(f"{t} uses axioms {sorted(axs - ALLOWED_AXIOMS)}")
                else:
                    res["discharged"] += 1
        # thorough tier: the toolchain's independent re-checker replays every declaration of the compiled proofs
        # (cached per set of .olean files, so that it runs once per build and not once per property)
        if p.returncode == 0 and os.environ.get("VERIF_TIER") == "thorough":
            try:
                import hashlib
                libdir = os.path.join(LEAN_DIR, ".lake", "build", "lib", "lean")
                h = hashlib.sha256()
                for root, _, files in sorted(os.walk(libdir)):
                    for fn in sorted(files):
                        if fn.endswith(".olean"):
                            st = os.stat(os.path.join(root, fn))
                            h.update(f"{root}/{fn}:{st.st_size}:{int(st.st_mtime)}".encode())
                stamp = os.path.join(LEAN_DIR, ".lake", f"leanchecker_{h.hexdigest()[:16]}.ok")
                if os.path.exists(stamp):
                    res["leanchecker"] = "ok (cached for this build)"
                else:
                    q = subprocess.run(["lake", "env", "leanchecker", "Proofs"], cwd=LEAN_DIR, stdout=subprocess.PIPE,
                                       stderr=subprocess.STDOUT, timeout=3600)
                    if q.returncode == 0:
                        open(stamp, "w").write("ok")
                        res["leanchecker"] = "ok"
                    else:
                        res["ok"] = False
                        res["leanchecker"] = "FAILED"
                        res["broken"].append("leanchecker rejected the compiled proofs: " + q.stdout.decode(errors="replace")[-300:])
            except Exception as e:  # noqa
                res["leanchecker"] = f"not run: {e}"
    finally:
        fcntl.flock(lock, fcntl.LOCK_UN)
        lock.close()
    res["wall_s"] = round(time.time() - t0, 2)
    return res


# ---------------------------------------------------------------------------- known findings

def load_findings(prop):
    """Lines of KNOWN_FINDINGS.txt: `finding: property=<id> id=<Fn> class=<cls> witness=<path> <text>`."""
    out = []
    path = os.path.join(VERIF, "KNOWN_FINDINGS.txt")
    if not os.path.exists(path):
        return out
    for line in open(path):
        line = line.strip()
        if not line.startswith("finding:"):
            continue
        kv = dict(re.findall(r"(\w+)=(\S+)", line))
        if kv.get("property") != prop:
            continue
        text = re.sub(r"^finding:\s*", "", line)
        text = re.sub(r"\b(property|id|class|witness|site)=\S+\s*", "", text).strip()
        out.append({"id": kv.get("id"), "cls": kv.get("class"), "witness": kv.get("witness"), "site": kv.get("site"), "text": text})
    return out


# ---------------------------------------------------------------------------- parallel map

def pmap(fn, items, nproc=None):
    nproc = nproc or min(16, os.cpu_count() or 4)
    if len(items) <= 1 or nproc <= 1:
        return [fn(x) for x in items]
    with mp.get_context("fork").Pool(nproc) as pool:
        return pool.map(fn, items, chunksize=max(1, len(items) // (nproc * 4)))


# ---------------------------------------------------------------------------- verdicts / evidence

class Report:
    def __init__(self, prop, tier, seed):
        self.prop, self.tier, self.seed = prop, tier, seed
        self.t0 = time.time()
        self.violations = []          # dicts with replay payloads (new violations)
        self.known_hits = {}          # class -> count
        self.disagreements = []       # model/impl disagreements (payloads)
        self.coverage = {}
        self.samples = []
        self.notes = []
        self.infra_errors = []
        self.lean = None

    def write_replay(self, kind, payload):
        d = os.path.join(VERIF, "replays")
        os.makedirs(d, exist_ok=True)
        payload = dict(payload, property=self.prop, kind=kind, seed=self.seed, tier=self.tier)
        path = os.path.join(d, f"{self.prop}-{kind}-{chash(payload)}.json")
        with open(path, "w") as f:
            json.dump(payload, f, indent=1, default=str)
        return path

    def finish(self, findings_printed, level="proof", assumptions=None):
        """Print verdict lines, write evidence, return exit code."""
        lean = self.lean or {"ok": True, "obligations": 0, "discharged": 0, "broken": []}
        exit_code = 0
        lines = []
        for v in self.violations[:5]:
            path = self.write_replay("violation", v)
            lines.append(f"VIOLATION property={self.prop} replay={path}")
        if not self.violations:
            broken = []
            if not lean["ok"]:
                broken += [{"obligation": b} for b in lean["broken"]]
            for d in self.disagreements[:3]:
                broken.append({"correspondence": d})
            if broken:
                path = self.write_replay("obligation", {"no_longer_checks": broken,
                    "note": "a proof obligation or the model/implementation correspondence no longer checks; "
                            "the search over this run's population found no input on which the property itself fails"})
                lines.append(f"VIOLATION property={self.prop} replay={path} no-failing-input-found")
        if lines:
            exit_code = 1
        if self.infra_errors and not lines:
            exit_code = 2
        for l in findings_printed:
            print(l)
        for l in lines:
            print(l)
        cov = dict(self.coverage)
        cov.setdefault("obligations", max(1, lean["obligations"]))
        cov.setdefault("discharged", lean["discharged"])
        cov.setdefault("checker_cmd", "cd lean && lake build Bardic Proofs driver && lake env lean .lake/audit_%s.lean  (#print axioms on every property theorem)" % self.prop)
        cov.setdefault("trusted_base", TRUSTED_BASE)
        cov.setdefault("samples", self.samples[:3] or [{"note": "no generated cases in this run"}])
        cov["lean"] = {"ok": lean["ok"], "broken": lean["broken"], "axioms": lean.get("axioms", {}), "wall_s": lean.get("wall_s"), "leanchecker": lean.get("leanchecker", "thorough tier only")}
        cov["known_finding_hits"] = self.known_hits
        cov["disagreements"] = len(self.disagreements)
        cov["notes"] = self.notes
        ev = {"property_id": self.prop, "tier": self.tier, "seed": self.seed, "level": level,
              "coverage": cov, "assumptions": assumptions or [], "wall_s": round(time.time() - self.t0, 2),
              "violations": len(self.violations) + (1 if (lines and not self.violations) else 0)}
        # (development runs against a seeded change write their evidence elsewhere: VERIF_EVIDENCE_DIR)
        evdir = os.environ.get("VERIF_EVIDENCE_DIR") or os.path.join(VERIF, "evidence")
        os.makedirs(evdir, exist_ok=True)
        with open(os.path.join(evdir, f"{self.prop}.json"), "w") as f:
            json.dump(ev, f, indent=1, default=str)
        summary = (f"[{self.prop}] tier={self.tier} seed={self.seed} lean={'ok' if lean['ok'] else 'BROKEN'} "
                   f"obligations={lean['discharged']}/{lean['obligations']} "
                   f"cases={cov.get('evaluations', 0)} disagreements={len(self.disagreements)} "
                   f"violations={len(self.violations)} known_hits={sum(self.known_hits.values())} "
                   f"wall={ev['wall_s']}s exit={exit_code}")
        print(summary)
        for e in self.infra_errors[:3]:
            print("INFRA-ERROR:", e)
        return exit_code
