"""C18 (story graph) and C12 (well-formed, navigation-safe output) families: compiled stories from the
generator, from the repository's own .bard files, and from a corrupted-call-site stream; the REAL
extract_connections / compiler vs the Lean model, plus the properties evaluated on the real results."""
import re
import ast
import copy
import glob
import json
import os

from common import REPO, rng_for, run_driver, chash, quiet
from compare import first_diff
import corr_play
import gen_story
import framework
import real_play

TOKEN_KINDS = {"text", "expression", "inline_conditional", "render_directive", "input", "python_statement",
               "python_block", "hook", "conditional", "for_loop", "jump", "join_marker"}


def all_sites(story):
    """every call site of a compiled story by a generic walk: (src, target, args, nested, is_jump)"""
    out = []
    def walk(toks, src, nested):
        for t in toks:
            ty = t.get("type")
            if ty == "jump":
                out.append((src, t.get("target"), t.get("args", ""), nested, True))
            elif ty == "conditional":
                for b in t.get("branches", []):
                    for c in b.get("choices", []):
                        out.append((src, c.get("target"), c.get("args", ""), True, False))
                    walk(b.get("content", []), src, True)
            elif ty == "for_loop":
                for c in t.get("choices", []):
                    out.append((src, c.get("target"), c.get("args", ""), True, False))
                walk(t.get("content", []), src, True)
    for pid, p in story["passages"].items():
        for c in p.get("choices", []):
            out.append((pid, c.get("target"), c.get("args", ""), False, False))
        walk(p.get("content", []), pid, False)
    return out


def site_ok(story, target, args, is_jump):
    """Python's own judgement of a call site (ast + call rule), independent of compiler and model"""
    if target == "@join" and not is_jump:
        return True
    p = story["passages"].get(target)
    if p is None:
        return False
    params = p.get("params", [])
    if not params:
        return args == ""
    try:
        call = ast.parse(f"f({args})", mode="eval").body
    except SyntaxError:
        return False
    npos = len(call.args)
    kws = [k.arg for k in call.keywords]
    names = [q["name"] for q in params]
    if npos > len(names) or any(k not in names for k in kws):
        return False
    for i, q in enumerate(params):
        if i < npos and q["name"] in kws:
            return False
        if q["default"] is None and not (i < npos or q["name"] in kws):
            return False
    return True


def corrupt(r, ast_story):
    """corrupt one call site of a story AST; returns (kind, where) or None"""
    sites = []
    def walk(items, nested):
        for it in items:
            if it["k"] == "choice" and it["target"] != "@join":
                sites.append((it, nested, False))
            elif it["k"] == "jump":
                sites.append((it, nested, True))
            elif it["k"] == "if":
                for _, body in it["branches"]:
                    walk(body, True)
            elif it["k"] == "for":
                walk(it["body"], True)
    for p in ast_story["passages"]:
        walk(p["items"], False)
    if not sites:
        return None
    it, nested, is_jump = r.choice(sites)
    kind = r.choice(["unknown-target", "surplus", "unknown-kw", "missing", "duplicate", "at-target", "kw-optional-only", "gap", "gap", "paren-string", "paren-string"])
    params = {p["name"]: p["params"] for p in ast_story["passages"]}
    ps = params.get(it["target"], [])
    if kind == "paren-string":
        # a string argument holding an unbalanced parenthesis: one argument per parameter, all of them fine for Python
        if not ps:
            return None
        vals = [r.choice(['"fine :)"', '":("', "')'", '"a) b"', '"(("'])] + ["1"] * (len(ps) - 1)
        r.shuffle(vals)
        it["args"] = ", ".join(vals)
    elif kind == "gap":
        # a blank between the passage name and its argument list ("Stall (3)"): correct arguments, unusual spelling
        if not ps:
            return None
        it["args"] = ", ".join(["1"] * len(ps))
        it["gap"] = r.choice([" ", "  ", "\t"])
    elif kind == "unknown-target":
        it["target"] = "Nowhere_" + it["target"]
    elif kind == "at-target":
        if is_jump:
            return None
        it["target"] = r.choice(["@jion", "@end", "@Join"])
        it["args"] = ""
    elif kind == "kw-optional-only":
        req = [n for n, d in ps if d is None]
        opt = [n for n, d in ps if d is not None]
        if not req or not opt:
            return None
        it["args"] = f"{opt[0]}=1"
    elif kind == "surplus":
        it["args"] = ", ".join(["1"] * (len(ps) + 1))
    elif kind == "unknown-kw":
        if not ps:
            it["args"] = "zz=1"
        else:
            it["args"] = ", ".join(["1"] * len(ps)) + ", zz=1"
    elif kind == "missing":
        req = [n for n, d in ps if d is None]
        if not req:
            return None
        it["args"] = ""
    else:
        if not ps:
            return None
        it["args"] = ", ".join(["1"] * len(ps)) + f", {ps[0][0]}=2"
    return kind, ("nested" if nested else "top") + ("-jump" if is_jump else "-choice"), it["target"]


def real_graph(story):
    from bardic.cli.graph import extract_connections
    with quiet():
        conns, referenced, defined = extract_connections(copy.deepcopy(story))
    edges = sorted([[src, tgt, bool(j)] for src, ts in conns.items() for (tgt, _, j) in ts])
    return edges, sorted(referenced), sorted(defined)


def report_of_generate_graph(story):
    """what `bardic graph` tells the author: (missing passages listed, nodes drawn as [MISSING], edges drawn) - the command's own
    function run on the story written to a file, with the Graphviz rendering step (an external program) left out"""
    import io
    import tempfile
    import contextlib
    import graphviz
    from bardic.cli.graph import generate_graph
    d = tempfile.mkdtemp(prefix="verif_graph_")
    seen = {}
    orig = graphviz.Digraph.render
    try:
        path = os.path.join(d, "story.json")
        with open(path, "w", encoding="utf-8") as f:
            json.dump(story, f)

        def fake_render(self, *a, **kw):
            seen["source"] = self.source
            return path
        graphviz.Digraph.render = fake_render
        buf = io.StringIO()
        with contextlib.redirect_stdout(buf):
            generate_graph(path, os.path.join(d, "out"), format="svg")
        text = buf.getvalue()
    finally:
        graphviz.Digraph.render = orig
        import shutil
        shutil.rmtree(d, ignore_errors=True)
    listed = []
    if "Missing passages" in text:
        part = text.split("Missing passages", 1)[1].split("\n\n")[0]
        listed = [l[4:] for l in part.split("\n")[1:] if l.startswith("  - ")]
    drawn = re.findall(r'^\s*"?([^"\n]+?)"? \[label="[^"]*\[MISSING\]"', seen.get("source", ""), re.M)
    return sorted(listed), sorted(drawn), text


def check_story(story, model, walk_case, label, source=None, corrupted=None):
    """returns (c18 fails, c12 fails, disagreements)"""
    f18, f12, dis = [], [], []
    def add(lst, what, cls=None):
        lst.append({"cls": cls, "what": what, "family": label, "source": source})
    # ------------------------------------------------ C18: what the command itself reports
    try:
        listed, drawn, _ = report_of_generate_graph(story)
        sites0 = all_sites(story)
        really = sorted({t for (s_, t, a_, n_, j_) in sites0 if t and t != "@join" and t not in story["passages"]})
        if listed != really:
            add(f18, f"`bardic graph` lists the missing passages {listed}; the referenced targets that are not defined are {really}")
    except Exception as e:  # noqa
        add(f18, f"`bardic graph` (generate_graph) failed on a compiled story: {type(e).__name__}: {str(e)[:120]}")
    # ------------------------------------------------ C18
    edges, referenced, defined = real_graph(story)
    sites = all_sites(story)
    exp_edges = sorted([[s, t, bool(j)] for (s, t, a, n, j) in sites if t and t != "@join"])
    if edges != exp_edges:
        miss = [e for e in exp_edges if e not in edges][:3]
        extra = [e for e in edges if e not in exp_edges][:3]
        add(f18, f"graph edges differ from the call sites of the story: missing {miss}, unexpected {extra}")
    exp_ref = sorted({t for (s, t, a, n, j) in sites if t and t != "@join"})
    if referenced != exp_ref:
        add(f18, f"referenced targets {referenced} but the story references {exp_ref}")
    if sorted(defined) != sorted(story["passages"].keys()):
        add(f18, "defined passages differ from the story's passages")
    real_missing = sorted(set(referenced) - set(defined))
    exp_missing = sorted(t for t in exp_ref if t not in story["passages"])
    if real_missing != exp_missing:
        add(f18, f"flagged missing {real_missing}, really missing {exp_missing}")
    if "@join" in referenced:
        add(f18, "the reserved @join target is treated as a passage reference")
    if model.get("status") == "ok":
        d = first_diff(sorted(model["edges"]), edges, "/edges") or first_diff(sorted(model["defined"]), sorted(defined), "/defined") \
            or first_diff(sorted(set(model["missing"])), real_missing, "/missing")
        if d:
            dis.append({"family": label, "detail": d, "source": source})
    # transitions observed in play are edges
    if walk_case is not None and walk_case["real"].get("status") == "ok":
        eset = {(a, b) for a, b, _ in edges}
        jset = {}
        for a, b, j in edges:
            if j:
                jset.setdefault(a, set()).add(b)
        prev = walk_case["real"]["init"]
        for op, st in zip(walk_case["ops"], walk_case["real"]["steps"]):
            if op["op"] == "choose" and "out" in st["resp"] and prev.get("out") and 0 <= op["i"] < len(prev["out"]["choices"]):
                ch = prev["out"]["choices"][op["i"]]
                if ch["target"] == "@join":
                    # a join choice stays in its passage (or leaves it along jump edges of the graph, should a jump be followed)
                    src = prev["out"]["pid"]
                    seen, todo = {src}, [src]
                    while todo:
                        u = todo.pop()
                        for v in jset.get(u, ()):
                            if v not in seen:
                                seen.add(v)
                                todo.append(v)
                    if st["resp"]["out"]["pid"] not in seen:
                        add(f18, f"a '-> @join' choice taken in {src} landed in {st['resp']['out']['pid']}, which no jump edge of the graph leads to")
                if ch["target"] != "@join":
                    src = prev["out"]["pid"]
                    if (src, ch["target"]) not in eset and src == prev["cur"]:
                        add(f18, f"the engine performed the choice transition {src} -> {ch['target']} which is not an edge of the graph")
                    # the landing passage is reachable from the target along jump edges
                    seen, todo = {ch["target"]}, [ch["target"]]
                    while todo:
                        u = todo.pop()
                        for v in jset.get(u, ()):
                            if v not in seen:
                                seen.add(v)
                                todo.append(v)
                    if st["resp"]["out"]["pid"] not in seen:
                        add(f18, f"landed in {st['resp']['out']['pid']} which is not reachable from {ch['target']} along jump edges")
            prev = st["state"]
    # ------------------------------------------------ C12
    try:
        try:
            if json.loads(json.dumps(story, allow_nan=False)) != story:
                add(f12, "the compiled story does not survive a JSON round trip unchanged")
        except ValueError as e:
            add(f12, f"the compiled story is not JSON data: {e}")
        for k, v in (story.get("metadata") or {}).items():
            if not isinstance(v, str):
                add(f12, f"metadata value {k!r} was compiled to a {type(v).__name__} ({v!r}); metadata values are text")
    except Exception as e:  # noqa
        add(f12, f"the compiled story is not JSON data: {e}")
    if story.get("initial_passage") not in story["passages"]:
        add(f12, f"initial passage {story.get('initial_passage')!r} does not exist")
    for k, p in story["passages"].items():
        if p.get("id") != k:
            add(f12, f"passage keyed {k!r} has id {p.get('id')!r}")
    kinds = set()
    def kwalk(toks):
        for t in toks:
            kinds.add(t.get("type"))
            for b in t.get("branches", []) if t.get("type") == "conditional" else []:
                kwalk(b.get("content", []))
                for c in b.get("choices", []):
                    kwalk(c.get("text", []) if isinstance(c.get("text"), list) else [])
            if t.get("type") == "for_loop":
                kwalk(t.get("content", []))
            if t.get("type") == "inline_conditional":
                kwalk(t.get("truthy", []) if isinstance(t.get("truthy"), list) else [])
                kwalk(t.get("falsy", []) if isinstance(t.get("falsy"), list) else [])
    for p in story["passages"].values():
        kwalk(p.get("content", []))
        kwalk(p.get("execute", []))
        for c in p.get("choices", []):
            kwalk(c.get("text", []) if isinstance(c.get("text"), list) else [])
            kwalk(c.get("block_content", []))
    if kinds - TOKEN_KINDS:
        add(f12, f"undocumented token kinds {sorted(kinds - TOKEN_KINDS)}")
    bad_top = [(s, t, a) for (s, t, a, n, j) in sites if not n and not site_ok(story, t, a, j)]
    bad_nested = [(s, t, a) for (s, t, a, n, j) in sites if n and not site_ok(story, t, a, j)]
    if bad_top:
        add(f12, f"compiled story has an invalid top-level call site {bad_top[0]}")
    if bad_nested:
        add(f12, f"compiled story has an invalid call site nested in a block {bad_nested[0]} (fails at run time)", "C12-nested-unvalidated")
    if model.get("status") == "ok":
        if model["wf_top"] != (not bad_top and story.get("initial_passage") in story["passages"]):
            dis.append({"family": label, "detail": ("/wf_top", model["wf_top"], not bad_top), "source": source})
        if model["wf_all"] != (model["wf_top"] and not bad_nested):
            dis.append({"family": label, "detail": ("/wf_all", model["wf_all"], not bad_nested), "source": source})
    # navigation errors observed in play
    if walk_case is not None and walk_case["real"].get("status") == "ok":
        for op, st in zip(walk_case["ops"], walk_case["real"]["steps"]):
            r = st["resp"]
            if op["op"] == "choose" and r.get("raise") == "ValueError":
                msg = r.get("msg", "")
                if "unknown passage" in msg or "Required parameter" in msg or "not found" in msg or "provided multiple times" in msg:
                    add(f12, f"play failed with a navigation error: {msg[:100]}", "C12-nested-unvalidated" if bad_nested else None)
                # a default that cannot see an EARLIER parameter of its own passage is a binding failure, not author code failing
                m_ = re.search(r"Could not evaluate default for parameter '(\w+)'.*name '(\w+)' is not defined", msg)
                if m_ and any(m_.group(2) in [q["name"] for q in p_.get("params", [])] and m_.group(1) in [q["name"] for q in p_.get("params", [])]
                              for p_ in story["passages"].values()):
                    add(f12, f"play failed binding the arguments of a call the compiler accepted: {msg[:140]}", "C12-nested-unvalidated" if bad_nested else None)
    return f18, f12, dis


def repo_sources():
    out = []
    for pat in ("stories/**/*.bard", "tests/**/*.bard", "tests_other/**/*.bard", "docs/**/*.bard"):
        out += sorted(glob.glob(os.path.join(REPO, pat), recursive=True))
    return out


def _chunk(arg):
    seed, idxs, which, n_ops = arg
    out = {"cases": 0, "accepted": 0, "rejected": 0, "f18": [], "f12": [], "dis": [], "samples": [], "hashes": [], "corrupt": {}}
    items = []
    for idx in idxs:
        r = rng_for(seed, "graph", idx)
        a = gen_story.generate(r.randrange(1 << 30), dict(params=0.7, long_params=0.7, block_jumps=0.5, top_jumps=0.4, block_choices=0.6, join=0.5, join_arrows=0.5, hooks=0.3, empty_passage=0.5, odd_names=0.35, str_args=0.15))
        corrupted = None
        if r.random() < 0.45:
            corrupted = corrupt(r, a)
        src = gen_story.print_story(a)
        if r.random() < 0.5:
            # a metadata block: values are text, whatever they look like
            md = r.sample([("title", r.choice(["The Keep", "Infinity", "Nan", "1e999", "true", "None"])), ("author", r.choice(["Ann", "nan", "-inf", "007", "\"quoted\""])),
                           ("version", r.choice(["1.0.0", "2", "0.5", "inf"])), ("story_id", r.choice(["keep", "NaN", "12"]))], r.randint(1, 4))
            src = "@metadata\n" + "".join(f"  {k}: {v}\n" for k, v in md) + "\n" + src
        items.append((idx, src, corrupted, r))
    todo = []
    for idx, src, corrupted, r in items:
        out["cases"] += 1
        try:
            story = corr_play.compile_source(src)
        except Exception as e:  # noqa
            out["rejected"] += 1
            if not isinstance(e, (SyntaxError, ValueError)):
                out["f12"].append({"cls": None, "what": f"a call site the compiler does not accept ({corrupted}) is answered with {type(e).__name__}: {str(e)[:100]} "
                                                        "instead of a diagnostic", "family": "c12-gen", "source": src})
            if corrupted:
                k = f"{corrupted[0]}@{corrupted[1]}:rejected"
                out["corrupt"][k] = out["corrupt"].get(k, 0) + 1
            else:
                out["f12"].append({"cls": None, "what": f"a valid generated story was rejected: {type(e).__name__}: {str(e)[:120]}",
                                   "family": "c12-gen", "source": src})
            continue
        out["accepted"] += 1
        if corrupted:
            k = f"{corrupted[0]}@{corrupted[1]}:accepted"
            out["corrupt"][k] = out["corrupt"].get(k, 0) + 1
        ops, real = corr_play.walk(r, story, n_ops, "main", dict(choose=85, goto=3, undo=4, redo=2, read=4, bad=2, save=0, load=0, fresh=0, loadbad=0),
                                   prefer=({corrupted[2]} if corrupted and corrupted[1] in ("nested-choice", "top-choice") else None))
        todo.append((src, story, {"ops": ops, "real": real}, corrupted))
    models = run_driver([{"kind": "graph", "id": f"g{i}", "story": t[1]} for i, t in enumerate(todo)]) if todo else []
    for (src, story, wc, corrupted), m in zip(todo, models):
        try:
            f18, f12, dis = check_story(story, m, wc, "c18-gen", src, corrupted)
        except real_play.Unmodelled:
            continue
        out["f18"] += f18
        out["f12"] += f12
        out["dis"] += dis
        out["hashes"].append(chash(src))
    if todo:
        out["samples"].append({"source": todo[0][0][:1500]})
    return out


def graph_family(rep, n_cases, n_ops, which, known_classes=(), nproc=16):
    chunk = max(1, n_cases // (nproc * 2))
    idxs = list(range(n_cases))
    outs = framework.pmap(_chunk, [(rep.seed, idxs[i:i + chunk], which, n_ops) for i in range(0, n_cases, chunk)], nproc)
    tot = {"cases": 0, "accepted": 0, "rejected": 0, "corrupt": {}}
    hashes = set()
    fails = []
    for o in outs:
        for k in ("cases", "accepted", "rejected"):
            tot[k] += o[k]
        for k, v in o["corrupt"].items():
            tot["corrupt"][k] = tot["corrupt"].get(k, 0) + v
        fails += o["f18"] if which == "C18" else o["f12"]
        rep.disagreements.extend(o["dis"])
        if len(rep.samples) < 2:
            rep.samples.extend(o["samples"][:1])
        hashes.update(o["hashes"])
    # the repository's own stories
    repo_n = 0
    lines, metas = [], []
    for path in repo_sources():
        try:
            with quiet():
                from bardic.compiler.parsing.io import parse_file
                story = parse_file(path)
        except Exception:  # noqa
            continue
        lines.append({"kind": "graph", "id": path, "story": story})
        metas.append((path, story))
    models = run_driver(lines) if lines else []
    for (path, story), m in zip(metas, models):
        repo_n += 1
        f18, f12, dis = check_story(story, m, None, "repo-story", os.path.relpath(path, REPO))
        fails += f18 if which == "C18" else f12
        # the model loads stories with imports / unmodelled code too: graph and wf are purely structural
        rep.disagreements.extend(dis)
    tot["repo_stories"] = repo_n
    for f in fails:
        if f["cls"] is not None and f["cls"] in known_classes:
            rep.known_hits[f["cls"]] = rep.known_hits.get(f["cls"], 0) + 1
        else:
            rep.violations.append(f)
    cov = rep.coverage
    cov["evaluations"] = cov.get("evaluations", 0) + tot["cases"] + repo_n
    cov["programs"] = cov.get("programs", 0) + tot["accepted"] + repo_n
    cov["traces_validated_against_impl"] = cov.get("traces_validated_against_impl", 0) + tot["accepted"] + repo_n - len(rep.disagreements)
    cov["distinct_nontrivial"] = cov.get("distinct_nontrivial", 0) + len(hashes)
    cov.setdefault("families", {})["graph"] = tot
    return tot


FIXED_GRAPH_STORIES = [
    # @input lines with an attribute named like the token's own field, at passage level and inside blocks
    (":: Start\n~ k = 1\n@input name=\"age\" type=\"number\"\nhi\n@if k:\n  @input name=\"guest\" type=\"jump\" target=\"Start\"\n@endif\n@for i in [1]:\n  @input name=\"x\" type=\"text\"\n@endfor\n+ [go] -> Start\n"),
    # passages registered with @hook that the player also walks into; they have choices and jumps of their own
    (":: Start\n~ hour = 0\n@hook turn_end Clock\n@hook turn_end Poison\nhi\n+ [clock] -> Clock\n+ [poison] -> Poison\n+ [wait] -> Start2\n\n"
     ":: Start2\nagain\n+ [clock] -> Clock\n+ [poison] -> Poison\n\n"
     ":: Clock\n~ hour = hour + 1\nIt is {hour}.\n+ [hall] -> Hall\n@if hour > 0:\n  + [garden] -> Garden\n@endif\n\n"
     ":: Poison\n@if hour > 2:\n  -> Death\n@endif\nsick\n+ [rest] -> Start2\n\n:: Hall\nhall\n+ [back] -> Start2\n\n:: Garden\ngarden\n+ [back] -> Start2\n\n:: Death\ndead\n"),
    # undefined targets referenced from a passage nobody links to (an unfinished draft), inside blocks
    (":: Start\nhi\n+ [go] -> Hall\n\n:: Hall\nhall\n@if True:\n  + [up] -> Attic\n@endif\n+ [back] -> Start\n\n"
     ":: Draft\nnot linked yet\n@if True:\n  + [down] -> Crypt\n  @for i in [1]:\n    -> Cellar\n  @endfor\n@endif\n"),
    # unusual but accepted spellings of call sites inside blocks; every offered choice is taken once from a fresh engine
    (":: Market\n~ coins = 5\nStalls.\n@if coins >= 3:\n  + [Haggle] -> Stall (3)\n  + [Tab] -> Stall\t(4)\n@endif\n@for k in [1, 2]:\n  + [Loop {k}] -> Stall  (k)\n@endfor\n"
     "+ [plain] -> Stall(1)\n+ [dotted] -> Town.Inn(2)\n@if coins > 1:\n  + [dotted in block] -> Town.Inn(3)\n  + [deep] -> Town.Inn.Room(1)\n@endif\n\n"
     ":: Stall(price)\nPrice {price}\n+ [back] -> Market\n\n:: Town.Inn(n)\nInn {n}\n@if n > 2:\n  -> Town.Inn.Room(n)\n@endif\n+ [back] -> Market\n\n"
     ":: Town.Inn.Room(n=0)\nRoom {n}\n+ [back] -> Market\n"),
    (":: Start\n~ go = True\nA\n@if go:\n  @for i in [1]:\n    + [deep {i}] -> End (i)\n    @if i:\n      + [deeper] -> End( i )\n      -> Side\n    @endif\n  @endfor\n@endif\n+ [join] -> @join\n@join\nafter\n@if go:\n  + [late] -> End (2)\n@endif\n\n"
     ":: Side\nside\n@if go:\n  + [from side] -> End (7)\n@endif\n\n:: End(x)\nEnd {x}\n"),
]


def fixed_graph_probes(rep, which):
    """every choice on offer in a few fixed stories is taken once; the transition the engine performs must be an edge of the graph"""
    n = 0
    for src in FIXED_GRAPH_STORIES:
        try:
            story = corr_play.compile_source(src)
        except Exception as ex:  # noqa
            rep.violations.append({"cls": None, "family": "c18-fixed", "what": f"probe story does not compile: {ex}", "source": src})
            continue
        first = real_play.play(story, [])
        if first.get("status") != "ok":
            rep.violations.append({"cls": None, "family": "c18-fixed", "what": f"probe story does not start: {first}", "source": src})
            continue
        prefixes = [[]]
        # also the choices on offer after each first choice (one level deeper)
        for i in range(len(first["init"]["out"]["choices"])):
            prefixes.append([{"op": "choose", "i": i}])
        for pre in prefixes:
            base = real_play.play(story, pre)
            if base.get("status") != "ok":
                continue
            last = base["steps"][-1]["state"] if pre else base["init"]
            if not last.get("out"):
                continue
            for i in range(len(last["out"]["choices"])):
                ops = pre + [{"op": "choose", "i": i}]
                real = real_play.play(story, ops)
                n += 1
                f18, f12, _ = check_story(story, {"status": "skipped"}, {"ops": ops, "real": real}, which.lower() + "-fixed", src)
                for f in (f18 if which == "C18" else [x for x in f12 if x.get("cls") is None]):
                    rep.violations.append(dict(f, ops=ops))
    rep.coverage.setdefault("families", {})[which.lower() + "-fixed"] = {"cases": n}
    rep.coverage["evaluations"] = rep.coverage.get("evaluations", 0) + n
