import sys, json
from corr_play import make_case, run_cases
seed, idx = int(sys.argv[1]), int(sys.argv[2])
c = make_case(seed, idx)
r = run_cases([c])[0]
print(c["source"])
print(json.dumps(c["ops"]))
print(r["verdict"], r["detail"])
d = r["detail"]
if d and d[0].startswith("/steps/"):
    i = int(d[0].split("/")[2])
    print("OP", c["ops"][i])
    print("REAL resp", json.dumps(c["real"]["steps"][i]["resp"])[:600])
    print("MODEL resp", json.dumps(r["model"]["steps"][i]["resp"])[:600])
    print("REAL vars", c["real"]["steps"][i]["state"]["vars"])
    print("MODEL vars", r["model"]["steps"][i]["state"]["vars"])
