"""Development aid: confirm staged mutants (/tmp/mut/<id>) and store them under /verif/seeded/<id>/."""
import json, os, re, shutil, subprocess, sys
from concurrent.futures import ThreadPoolExecutor
VERIF = os.path.dirname(os.path.dirname(os.path.abspath(__file__)))
props = json.load(open(os.path.join(VERIF, "MANIFEST.json")))
claimed = {c["property_id"] for c in props["checks"]}

def one(name):
    mdir = f"/tmp/mut/{name}"
    prop = name.split("-")[0]
    checks = [prop] if prop in claimed else []
    p = subprocess.run(["/venv/bin/python", os.path.join(VERIF, "harness", "selftest.py"), mdir] + checks,
                       stdout=subprocess.PIPE, stderr=subprocess.STDOUT, timeout=3600)
    out = p.stdout.decode()
    try:
        res = json.loads(out[out.index("{"):])
    except Exception:
        return name, {"error": out[-500:]}
    return name, res

names = sys.argv[1:] or sorted(os.listdir("/tmp/mut"))
with ThreadPoolExecutor(max_workers=4) as ex:
    for name, res in ex.map(one, names):
        prop = name.split("-")[0]
        ok = res.get("apply_rc") == 0 and "217 passed" in res.get("tests", "") and res.get("demo_clean_rc") == 0 and res.get("demo_mutant_rc") == 1
        d = os.path.join(VERIF, "seeded", name)
        if ok:
            os.makedirs(d, exist_ok=True)
            for f in ("patch.diff", "demo.py", "notes.md"):
                if os.path.exists(f"/tmp/mut/{name}/{f}"):
                    shutil.copy(f"/tmp/mut/{name}/{f}", d)
            notes = open(f"/tmp/mut/{name}/notes.md").read() if os.path.exists(f"/tmp/mut/{name}/notes.md") else ""
            det = res.get(prop)
            meta = {"property": prop, "origin": "independent sub-agent given only the property text and a scratch worktree",
                    "confirmed": {"suite_with_patch": res.get("tests"), "demo_on_clean_tree_rc": res.get("demo_clean_rc"),
                                  "demo_with_patch_rc": res.get("demo_mutant_rc")},
                    "what_ran": f"harness/selftest.py /tmp/mut/{name} {prop}  (scratch git worktree of /repo, git apply patch.diff, "
                                "pinned suite, demo.py, ./check with BARDIC_REPO=<worktree>)",
                    "needs_to_manifest": (re.search(r"(?is)(manifest|trigger|needs?)[^\n]*\n(.{0,600})", notes).group(0)[:700] if re.search(r"(?i)manifest|trigger|need", notes) else notes[:500]),
                    "detected": None if det is None else {"exit": det["rc"], "lines": det["lines"]}}
            json.dump(meta, open(os.path.join(d, "meta.json"), "w"), indent=1)
        print(name, "KEPT" if ok else "REJECTED", (res.get(prop) or {}).get("rc"), [l for l in (res.get(prop) or {}).get("lines", []) if "VIOL" in l][:1])
