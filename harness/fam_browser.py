"""C19: the REAL browser engine vs the REAL main engine on the common feature subset (no hooks, no
@join), every observation of every call compared; bundles contain the story exactly as compiled."""
import copy
import filecmp
import json
import os
import shutil
import tempfile

from common import REPO, rng_for, chash, quiet
import corr_play
import real_play
import framework
from compare import norm


def scrub(st):
    """the browser build has no hooks and no join bookkeeping"""
    st = dict(st)
    st.pop("hooks", None)
    st.pop("join", None)
    return st


def compare_engines(case):
    fails = []
    story, ops = case["story"], case["ops"]
    b = real_play.play(story, ops, "browser")
    m = case["real"]
    if b.get("status") == "unmodelled" or m.get("status") == "unmodelled":
        return fails
    if b.get("status") != m.get("status"):
        fails.append({"cls": "C19-loop-failure" if _has_loop(story) else None, "step": -1,
                      "what": f"constructor: main {m.get('status')} / browser {b.get('status')}"})
        return fails
    if m.get("status") != "ok":
        return fails
    if norm(scrub(b["init"])) != norm(scrub(m["init"])):
        fails.append({"cls": None, "step": -1, "what": "the two engines differ right after construction"})
        return fails
    for i, (x, y) in enumerate(zip(m["steps"], b["steps"])):
        rx, ry = dict(x["resp"]), dict(y["resp"])
        if "doc" in rx:
            rx["doc"] = {k: v for k, v in rx["doc"].items() if k != "hooks"}
            ry["doc"] = {k: v for k, v in ry["doc"].items() if k != "hooks"}
        if norm(rx) != norm(ry) or norm(scrub(x["state"])) != norm(scrub(y["state"])):
            # C19-F1: a failing @for makes the main engine raise ValueError (its handler returns a 2-tuple where 3 values are
            # unpacked) while the browser copy shows a marker and carries on - to an output, or to a later failure of its own
            main_loop_error = rx.get("raise") == "ValueError" and "not enough values to unpack" in str(rx.get("msg", ""))
            loopfail = _has_loop(story) and ((("raise" in rx) != ("raise" in ry)) or main_loop_error)
            fails.append({"cls": "C19-loop-failure" if loopfail else None, "step": i,
                          "what": f"call {i} ({ops[i]['op']}): main and browser engine disagree "
                                  f"(main {_brief(rx)}, browser {_brief(ry)})"})
            break
    return fails


def _brief(r):
    if "raise" in r:
        return "raised " + r["raise"]
    if "out" in r:
        return "content " + repr(r["out"]["content"][:40])
    return str(r)[:60]


def _has_loop(story):
    return "for_loop" in json.dumps(story)


def _chunk(arg):
    seed, idxs, n_ops = arg
    out = {"cases": 0, "fails": [], "samples": [], "hashes": [], "ops": {}}
    for idx in idxs:
        c = corr_play.make_case(seed, f"browser:{idx}", dict(hooks=0, join=0, params=0.4, loops=0.5, conds=0.8, one_time=0.5, inputs=0.2, odd_colons=0.5),
                                n_ops, "main", dict(choose=62, undo=12, redo=8, save=5, load=4, fresh=3, goto=0, read=3, bad=3, loadbad=0, reset=0))
        if "story" not in c or c["real"].get("status") == "unmodelled":
            continue
        out["cases"] += 1
        for op in c.get("ops", []):
            out["ops"][op["op"]] = out["ops"].get(op["op"], 0) + 1
        try:
            fs = compare_engines(c)
        except real_play.Unmodelled:
            continue
        for f in fs:
            f.update({"family": "c19-engines", "id": c["id"], "source": c["source"], "ops": c["ops"]})
            out["fails"].append(f)
        out["hashes"].append(chash([c["source"], c["ops"]]))
        if not out["samples"]:
            out["samples"].append({"source": c["source"][:1200], "ops": c["ops"][:12]})
    return out


def bundle_check(rep, n, seed):
    """a bundle contains the story compiled exactly as `bardic compile` compiles it, and the engine template verbatim"""
    from bardic.cli.bundler import create_browser_bundle
    from bardic.compiler.compiler import BardCompiler
    import gen_story
    done = 0
    for i in range(n):
        r = rng_for(seed, "bundle", i)
        src = gen_story.print_story(gen_story.generate(r.randrange(1 << 30), dict(hooks=0, join=0)))
        d = tempfile.mkdtemp(prefix="verif_bundle_")
        try:
            os.makedirs(os.path.join(d, "parts"))
            # half of the bundles go through an @include
            if i % 2:
                lines = src.split("\n")
                cut = max(1, len(lines) // 2)
                # cut at a passage boundary so that both halves are well-formed text
                while cut < len(lines) and not lines[cut].startswith(":: "):
                    cut += 1
                open(os.path.join(d, "parts", "rest.bard"), "w").write("\n".join(lines[cut:]))
                main_text = "\n".join(lines[:cut] + ["@include parts/rest.bard"])
            else:
                main_text = src
            # the main file as editors on other systems save it: CRLF or lone CR line ends, a byte order mark in front
            nl = ["\n", "\r\n", "\n", "\r\n", "\r", "\n"][i % 6]
            with open(os.path.join(d, "story.bard"), "w", encoding="utf-8", newline=nl) as f_:
                f_.write(("\ufeff" if i % 5 == 4 else "") + main_text)
            main = os.path.join(d, "story.bard")
            try:
                with quiet():
                    BardCompiler().compile_file(main, os.path.join(d, "ref.json"))
                    ref = json.load(open(os.path.join(d, "ref.json")))
            except Exception:  # noqa
                continue
            with quiet():
                # (every third bundle gets a display name of its own: the name belongs to the page, not to the story)
                create_browser_bundle(main, os.path.join(d, "out"), minimal=True, **({"game_name": "Release Build 2"} if i % 3 == 0 else {}))
            got = json.load(open(os.path.join(d, "out", "game.json")))
            if got != ref:
                rep.violations.append({"cls": None, "family": "c19-bundle", "what": "the bundle's game.json differs from `bardic compile`'s output", "source": src})
            tpl = os.path.join(REPO, "bardic", "templates", "browser", "engine_browser.py")
            if not filecmp.cmp(tpl, os.path.join(d, "out", "engine_browser.py"), shallow=False):
                rep.violations.append({"cls": None, "family": "c19-bundle", "what": "the bundled engine differs from the engine template"})
            # re-bundling into the same directory after the story changed must refresh game.json
            open(main, "a").write("\n:: Extra_Passage\nadded later\n")
            with quiet():
                BardCompiler().compile_file(main, os.path.join(d, "ref2.json"))
                create_browser_bundle(main, os.path.join(d, "out"), minimal=True)
            if json.load(open(os.path.join(d, "out", "game.json"))) != json.load(open(os.path.join(d, "ref2.json"))):
                rep.violations.append({"cls": None, "family": "c19-bundle", "what": "re-bundling into an existing directory kept a stale game.json", "source": src})
            if i % 2:
                # ... also when only an included file changed
                open(os.path.join(d, "parts", "rest.bard"), "a").write("\n:: Extra_Two\nadded in the included file\n")
                with quiet():
                    BardCompiler().compile_file(main, os.path.join(d, "ref3.json"))
                    create_browser_bundle(main, os.path.join(d, "out"), minimal=True)
                if json.load(open(os.path.join(d, "out", "game.json"))) != json.load(open(os.path.join(d, "ref3.json"))):
                    rep.violations.append({"cls": None, "family": "c19-bundle", "what": "re-bundling after an included file changed kept a stale game.json", "source": src})
            done += 1
        finally:
            shutil.rmtree(d, ignore_errors=True)
    rep.coverage.setdefault("families", {})["c19-bundle"] = {"bundles": done}
    rep.coverage["evaluations"] = rep.coverage.get("evaluations", 0) + done


def browser_family(rep, n_cases, n_ops, known_classes=(), nproc=16):
    chunk = max(1, n_cases // (nproc * 2))
    idxs = list(range(n_cases))
    outs = framework.pmap(_chunk, [(rep.seed, idxs[i:i + chunk], n_ops) for i in range(0, n_cases, chunk)], nproc)
    tot = {"cases": 0, "ops": {}}
    hashes = set()
    for o in outs:
        tot["cases"] += o["cases"]
        for k, v in o["ops"].items():
            tot["ops"][k] = tot["ops"].get(k, 0) + v
        for f in o["fails"]:
            if f["cls"] is not None and f["cls"] in known_classes:
                rep.known_hits[f["cls"]] = rep.known_hits.get(f["cls"], 0) + 1
            else:
                rep.violations.append(f)
        if len(rep.samples) < 2:
            rep.samples.extend(o["samples"][:1])
        hashes.update(o["hashes"])
    cov = rep.coverage
    cov["evaluations"] = cov.get("evaluations", 0) + tot["cases"]
    cov["distinct_nontrivial"] = cov.get("distinct_nontrivial", 0) + len(hashes)
    cov.setdefault("families", {})["c19-engines"] = tot
    return tot


LONG_STORY = ":: Start\n~ n = 0\nBegin\n+ [step] -> Loop\n\n:: Loop\n~ n = n + 1\nStep {n}\n+ [again] -> Loop\n* [once {n}] -> Loop\n"


def long_history_probe(rep):
    """histories longer than the undo limit, with loads in between: the two engines forget the same steps
    (fixed sessions: the generated ones are far shorter than the limit of 50)"""
    story = corr_play.compile_source(LONG_STORY)
    ch = lambda i=0: {"op": "choose", "i": i}  # noqa
    sessions = {
        "load, 55 choices, 53 undos": [ch()] * 3 + [{"op": "save"}, {"op": "load", "slot": 0}] + [ch()] * 55 + [{"op": "undo"}, {"op": "can_undo"}] * 53 + [{"op": "redo"}] * 3,
        "60 choices, 55 undos, 55 redos": [ch()] * 60 + [{"op": "undo"}] * 55 + [{"op": "can_undo"}, {"op": "can_redo"}] + [{"op": "redo"}, {"op": "can_redo"}] * 55,
        "fresh load, 52 choices, undo to the end": [ch()] * 2 + [{"op": "save"}, ch(), {"op": "fresh_load", "slot": 0}] + [ch(), ch(1)] * 26 + [{"op": "undo"}] * 54 + [{"op": "can_undo"}],
        "two loads": [ch()] * 30 + [{"op": "save"}] + [ch()] * 30 + [{"op": "load", "slot": 0}] + [ch()] * 51 + [{"op": "load", "slot": 0}] + [ch()] * 51 + [{"op": "undo"}, {"op": "can_undo"}] * 52,
    }
    n = 0
    for name, ops in sessions.items():
        case = {"story": story, "ops": ops, "real": real_play.play(story, ops, "main")}
        n += 1
        for f in compare_engines(case):
            f.update({"family": "c19-long-history", "id": name, "source": LONG_STORY, "ops": ops, "what": f"session '{name}': " + f["what"]})
            rep.violations.append(f)
    rep.coverage.setdefault("families", {})["c19-long-history"] = {"cases": n, "calls": sum(len(o) for o in sessions.values())}
    rep.coverage["evaluations"] = rep.coverage.get("evaluations", 0) + n


IMPORT_STORIES = [
    # a name bound again to a value that is equal to the old one but not the same (10 -> 10.0, a copy of a list)
    (":: Start\n~ hp = 10\n~ party = ['ann']\n~ scouts = party\nCamp {hp}.\n+ [halve] -> Halve\n+ [scout] -> Scout\n\n"
     ":: Halve\n~ hp = hp / 2 * 2\n~ flag = (hp == 10)\n~ flag = int(flag)\nHp {hp} {flag}.\n+ [back] -> Start2\n+ [scout] -> Scout\n\n"
     ":: Scout\n~ scouts = list(scouts)\n~ scouts.append('bo')\nScouts {scouts} party {party}.\n+ [back] -> Start2\n+ [halve] -> Halve\n\n"
     ":: Start2\nAgain {hp} {party} {scouts}.\n+ [halve] -> Halve\n+ [scout] -> Scout\n"),
    # stories whose import lines bind functions, classes and modules (their variables are beyond the value observer of the
    # play families): compared call by call through what the player sees and what a save holds
    ("from math import floor\nimport math\nfrom bardic.stdlib.dice import roll\nfrom bardic.stdlib.economy import Wallet\nimport bardic.stdlib.inventory as invmod\n"
     ":: Start\n~ gold = 10\n~ purse = Wallet(7)\n~ bag = invmod.Inventory(5)\nGate {gold}.\n+ [pay] -> Toll\n+ [look] -> Look\n\n"
     ":: Toll\n~ gold = floor(gold / 3)\n~ purse.spend(2)\n~ name = roll.__name__\nLeft {gold}, purse {purse.gold}, {name}, {math.ceil(gold / 2)}.\n+ [back] -> Start2\n+ [look] -> Look\n\n"
     ":: Start2\nAgain {gold} {purse.gold} {type(purse).__name__} {type(bag).__name__}.\n+ [pay] -> Toll\n+ [look] -> Look\n\n"
     ":: Look\n~ ok = bag.add({'name': 'Gem', 'weight': floor(2.5)})\nBag {len(bag.items)} {ok} {bag.current_weight}.\n+ [back] -> Start2\n"),
]


def import_sessions(rep, n_walks):
    """histories with save / load / fresh load over stories that use imported functions, classes and modules"""
    import copy as _copy
    done = 0
    for src in IMPORT_STORIES:
        story = corr_play.compile_source(src)
        for w in range(n_walks):
            r = rng_for(rep.seed, "c19-imports", w)
            kinds = [r.choice(["choose", "choose", "choose", "save", "load", "fresh", "undo", "redo"]) for _ in range(r.randint(4, 14))]
            picks = [r.randrange(2) for _ in kinds]
            traces = {}
            for variant in ("main", "browser"):
                cls = real_play.engine_class(variant)
                tr, slots = [], []
                with quiet():
                    e = cls(_copy.deepcopy(story))
                    for k, p in zip(kinds, picks):
                        try:
                            if k == "choose":
                                ch = e.current().choices
                                o = e.choose(p % len(ch)) if ch else None
                                tr.append(["choose", o.content if o else None, [c["text"] for c in o.choices] if o else None])
                            elif k == "save":
                                d = json.loads(json.dumps(e.save_state()))
                                slots.append(d)
                                tr.append(["save", {kk: vv for kk, vv in d.items() if kk in ("state", "used_choices", "current_passage_id")}])
                            elif k in ("load", "fresh") and slots:
                                if k == "fresh":
                                    e = cls(_copy.deepcopy(story))
                                e.load_state(_copy.deepcopy(slots[p % len(slots)]))
                                o = e.current()
                                after = json.loads(json.dumps(e.save_state()))
                                tr.append([k, o.content, [c["text"] for c in o.choices], after.get("state")])
                            elif k == "undo":
                                tr.append(["undo", e.undo(), e.current().content])
                            elif k == "redo":
                                tr.append(["redo", e.redo(), e.current().content])
                        except Exception as ex:  # noqa
                            tr.append([k, "raise", type(ex).__name__, str(ex)[:100]])
                traces[variant] = tr
            done += 1
            if traces["main"] != traces["browser"]:
                j = next((i for i, (x, y) in enumerate(zip(traces["main"], traces["browser"])) if x != y), 0)
                rep.violations.append({"cls": None, "family": "c19-imports", "source": src, "ops": [[k, p] for k, p in zip(kinds, picks)],
                                       "what": f"main and browser engine disagree at call {j}: main {json.dumps(traces['main'][j])[:240]}, browser {json.dumps(traces['browser'][j])[:240]}"})
    rep.coverage.setdefault("families", {})["c19-imports"] = {"walks": done}
    rep.coverage["evaluations"] = rep.coverage.get("evaluations", 0) + done


ORDER_STORIES = [
    # what a choice written inside a block shows when a later part of the same passage changes the value it displays
    (":: Start\n~ price = 10\n~ n = 0\nShop\n@if price > 5:\n  + [Buy for {price}] -> Start\n  * [Once {n}] -> Start\n@endif\n@for it in [1, 2]:\n  + [Item {it} at {price}] -> Start\n  @if it == 2:\n    + [Deep {it} {price}] -> Start\n  @endif\n@endfor\n"
     "@if True:\n  ~ price = price - 2\n  ~ n = n + 1\n@endif\n+ [plain {price}] -> Start\n"),
]


def render_order_probe(rep):
    n = 0
    for src in ORDER_STORIES:
        story = corr_play.compile_source(src)
        for ops in ([{"op": "choose", "i": 0}, {"op": "choose", "i": 1}, {"op": "undo"}, {"op": "choose", "i": 2}, {"op": "save"}, {"op": "fresh_load", "slot": 0}, {"op": "choose", "i": 3}],
                    [{"op": "choose", "i": 4}, {"op": "choose", "i": 3}, {"op": "choose", "i": 2}, {"op": "undo"}, {"op": "redo"}]):
            case = {"story": story, "ops": ops, "real": real_play.play(story, ops, "main")}
            n += 1
            for f in compare_engines(case):
                f.update({"family": "c19-render-order", "source": src, "ops": ops})
                rep.violations.append(f)
    rep.coverage.setdefault("families", {})["c19-render-order"] = {"cases": n}
    rep.coverage["evaluations"] = rep.coverage.get("evaluations", 0) + n


def bundle_imports_probe(rep):
    """the bundle is self-contained for what the story imports: its import lines run in an interpreter that sees the bundle
    directory only (no installed bardic) - also when one stdlib module needs another one the story does not name"""
    import subprocess
    from bardic.cli.bundler import create_browser_bundle
    n = 0
    for imports in (["from bardic.stdlib.economy import Wallet"], ["from bardic.stdlib.economy import Shop", "import bardic.stdlib.dice as dice"],
                    ["from bardic.stdlib.relationship import Relationship"], ["import bardic.stdlib as lib"], ["from bardic.stdlib.inventory import Inventory"]):
        d = tempfile.mkdtemp(prefix="verif_bimp_")
        try:
            src = "\n".join(imports) + "\n:: Start\nhi\n"
            open(os.path.join(d, "story.bard"), "w").write(src)
            with quiet():
                create_browser_bundle(os.path.join(d, "story.bard"), os.path.join(d, "out"), minimal=True)
            story = json.load(open(os.path.join(d, "out", "game.json")))
            code = "import sys; sys.path.insert(0, %r)\n" % os.path.join(d, "out") + "\n".join(story.get("imports", [])) + "\nprint('imports-ok')\n"
            p_ = subprocess.run(["/usr/bin/python3", "-I", "-c", code], stdout=subprocess.PIPE, stderr=subprocess.PIPE, timeout=60, cwd=d)
            n += 1
            if b"imports-ok" not in p_.stdout:
                rep.violations.append({"cls": None, "family": "c19-bundle-imports", "source": src,
                                       "what": "the story's import lines do not run inside its own bundle: " + p_.stderr.decode(errors="replace").strip().split("\n")[-1][:200]})
        except Exception as ex:  # noqa
            rep.violations.append({"cls": None, "family": "c19-bundle-imports", "what": f"probe failed: {type(ex).__name__}: {str(ex)[:160]}", "source": "\n".join(imports)})
        finally:
            shutil.rmtree(d, ignore_errors=True)
    rep.coverage.setdefault("families", {})["c19-bundle-imports"] = {"cases": n}
    rep.coverage["evaluations"] = rep.coverage.get("evaluations", 0) + n
