"""Text-level parser correspondence (C11 / C14 / C17 / C01): the real `parse(text)` against the Lean model
`Bardic.Parser.parseText` (lean/Bardic/Parser/{Re,Text,Blocks,Core}.lean) on the same text.

Texts: printed forms of generated stories (all surface styles), every .bard file of the repository, token-level
mutations of those, sequences over the directive vocabulary (valid and broken forms of every kind of line).
CPython's own parser (`ast.parse`, used by the compiler for `~` statements and for call arguments) is recorded
while the real compiler runs and handed to the model as a table.

Compared: story (exact JSON equality) or diagnostic class (SyntaxError / ValueError) and the 1-based line the
diagnostic names (none when it names none).  The model covers ASCII text plus the control / space characters of
the vocabulary; a text with other non-ASCII characters is skipped (counted)."""
import ast as pyast
import json
import os
import re

from common import rng_for, run_driver, chash, quiet, time_limit, Timeout
import framework
import fam_total
import gen_story

_LINE = re.compile(r"on line (\d+):")
ALLOWED_NON_ASCII = set("\x85\xa0\u1680\u2028\u2029\u202f\u205f\u3000\ufeff") | {chr(c) for c in range(0x2000, 0x200b)}


def modelled(text):
    return all(ord(c) < 128 or c in ALLOWED_NON_ASCII for c in text)


def real_parse(text, limit=10.0):
    """-> (outcome dict, oracle tables)"""
    from bardic.compiler.parsing import core as pcore
    stmt, call, expr = {}, {}, {}
    orig = pyast.parse

    def recording(source, *a, **kw):
        mode = kw.get("mode", a[1] if len(a) > 1 else "exec")
        is_call = mode == "eval" and isinstance(source, str) and source.startswith("_temp_(") and source.endswith(")")
        is_expr = mode == "eval" and isinstance(source, str) and not is_call
        try:
            tree = orig(source, *a, **kw)
        except SyntaxError as e:
            if is_call:
                call[source[7:-1]] = "syntax"
            elif is_expr:
                expr[source] = "bad"
            elif isinstance(source, str):
                stmt[source] = "syntax:" + (str(e.lineno) if e.lineno else "")
            raise
        except (MemoryError, RecursionError, ValueError):
            if is_call:
                call[source[7:-1]] = "syntax"      # reported like a syntax error by the argument validator
            elif is_expr:
                expr[source] = "bad"
            elif isinstance(source, str):
                stmt[source] = "complex"
            raise
        if is_call:
            c = tree.body
            if any(isinstance(x, pyast.Starred) for x in c.args) or any(k.arg is None for k in c.keywords):
                call[source[7:-1]] = "star"
            else:
                call[source[7:-1]] = [len(c.args), [k.arg for k in c.keywords]]
        elif is_expr:
            expr[source] = "ok"
        elif isinstance(source, str):
            stmt[source] = "ok"
        return tree

    pyast.parse = recording
    try:
        with quiet(), time_limit(limit):
            story = pcore.parse(text)
        out = {"status": "ok", "story": story}
    except Timeout:
        out = {"status": "hang"}
    except (SyntaxError, ValueError) as e:
        m = _LINE.search(str(e))
        out = {"status": "diag", "cls": type(e).__name__, "line": int(m.group(1)) if m else None, "msg": str(e)[:200]}
    except BaseException as e:  # noqa
        if isinstance(e, KeyboardInterrupt):
            raise
        out = {"status": "escaped", "cls": type(e).__name__, "msg": str(e)[:200]}
    finally:
        pyast.parse = orig
    # keyword names may be None (`**kw` in the arguments): the model's table has text only
    for k, v in list(call.items()):
        if isinstance(v, list):
            v[1] = ["**" if x is None else x for x in v[1]]
    return out, {"stmt": stmt, "call": call, "expr": expr}


def canon(j):
    return json.loads(json.dumps(j, sort_keys=True))


def compare(real, model):
    """None when they agree, otherwise a short description"""
    st = model.get("status")
    if st in ("internal", "fuel", "oracle_miss"):
        return f"model: {st} {model.get('what') or model.get('query') or ''}"
    if real["status"] == "ok":
        if st != "ok":
            return f"real: story; model: {st} {model.get('cls')} line {model.get('line')} ({model.get('what')})"
        a, b = canon(real["story"]), canon(model["story"])
        if a != b:
            return "stories differ: " + first_diff(a, b)
        return None
    if real["status"] == "diag":
        if st != "diag":
            return f"real: {real['cls']} line {real['line']} ({real['msg'][:60]!r}); model: {st}"
        if real["cls"] != model["cls"]:
            return f"real: {real['cls']}; model: {model['cls']} ({model.get('what')})"
        ml = None if model["line"] is None else model["line"] + 1
        if real["line"] != ml:
            return f"diagnostic line: real {real['line']}, model {ml} ({model.get('what')}; {real['msg'][:60]!r})"
        return None
    return None     # hang / escaped exception: C11's own search reports those; nothing to compare


def first_diff(a, b, path=""):
    if type(a) != type(b):
        return f"{path}: {json.dumps(a)[:80]} vs {json.dumps(b)[:80]}"
    if isinstance(a, dict):
        for k in sorted(set(a) | set(b)):
            if k not in a or k not in b:
                return f"{path}.{k}: only on one side ({'real' if k in a else 'model'})"
            d = first_diff(a[k], b[k], f"{path}.{k}")
            if d:
                return d
        return ""
    if isinstance(a, list):
        if len(a) != len(b):
            return f"{path}: length {len(a)} vs {len(b)}: {json.dumps(a)[:100]} vs {json.dumps(b)[:100]}"
        for i, (x, y) in enumerate(zip(a, b)):
            d = first_diff(x, y, f"{path}[{i}]")
            if d:
                return d
        return ""
    return "" if a == b else f"{path}: {json.dumps(a)[:80]} vs {json.dumps(b)[:80]}"


STYLE_SETS = [
    {},
    {"legacy": True},
    {"indent": "    "},
    {"indent": "\t"},
    {"legacy": True, "indent": "", "top_comment": True},
    {"blank_ws": True, "py_indent": True, "comment_lines": 0.2},
    {"also": {"hook", "jump", "join", "endif", "py", "endpy", "render", "input", "ifhead", "forhead", "choice"}},
]


def gen_text(seed, kind, idx, stories, features):
    r = rng_for(seed, "text", kind, idx)
    if kind == "seq":
        return fam_total.gen_sequence(r, 6), "vocabulary sequence"
    if kind == "mut":
        name, base = stories[idx % len(stories)]
        return fam_total.mutate(r, base), f"mutation of {name}"
    if kind == "repo":
        name, base = stories[idx % len(stories)]
        return base, name
    if kind in ("gen", "genmut"):
        ast = gen_story.generate(r.randrange(1 << 30), dict(features))
        style = dict(r.choice(STYLE_SETS))
        if "also" in style or r.random() < 0.3:
            style["rng"] = rng_for(seed, "text-cmt", kind, idx)
        try:
            src = gen_story.print_story(ast, style)
        except TypeError:
            src = gen_story.print_story(ast)
        if kind == "genmut":
            return fam_total.mutate(r, src), "mutation of a generated story"
        return src, "generated story"
    raise ValueError(kind)


FEATURES = dict(comments=0.4, faults=0.05, stmt_faults=0.0, py_blocks=0.5, join=0.5, hooks=0.4, params=0.5, render=0.5, inputs=0.4,
                glue=0.3, tags=0.3, inline_cond=0.6, block_choices=0.6, loops=0.6, conds=0.8, block_jumps=0.4, top_jumps=0.3)


def _chunk(arg):
    seed, kind, idxs = arg
    stories = fam_total.repo_stories() if kind in ("mut", "repo") else None
    out = {"n": 0, "skipped": 0, "agree": 0, "outcomes": {}, "disagreements": [], "hashes": [], "diag_lines": 0}
    cases, metas = [], []
    tables_of = {}
    for idx in idxs:
        text, label = gen_text(seed, kind, idx, stories, FEATURES)
        if not modelled(text) or len(text) > 60000:
            out["skipped"] += 1
            continue
        real, tables = real_parse(text)
        cases.append({"kind": "ptext", "id": len(cases), "source": text, **tables})
        metas.append((text, label, real))
        tables_of[id(real)] = tables["stmt"]
    try:
        answers = run_driver(cases, timeout=900) if cases else []
    except Exception as e:  # noqa
        out["driver_error"] = str(e)[:300]
        return out
    for (text, label, real), model in zip(metas, answers):
        out["n"] += 1
        key = real["status"] + (":" + real["cls"] if real["status"] == "diag" else "")
        out["outcomes"][key] = out["outcomes"].get(key, 0) + 1
        if real["status"] == "diag" and real["line"] is not None:
            out["diag_lines"] += 1
        out["hashes"].append(chash(text))
        d = compare(real, model)
        if d is None:
            out["agree"] += 1
        else:
            out["disagreements"].append({"family": "text-" + kind, "label": label, "what": d, "source": text,
                                         "real": {k: v for k, v in real.items() if k != "story"},
                                         "model": {k: v for k, v in model.items() if k != "story"}})
    return out


def minimise(text, what_key):
    """greedy line-level reduction keeping a disagreement of the same kind"""
    def bad(t):
        if not modelled(t):
            return False
        real, tables = real_parse(t, limit=4.0)
        try:
            model = run_driver([{"kind": "ptext", "id": 0, "source": t, **tables}], timeout=60)[0]
        except Exception:  # noqa
            return False
        d = compare(real, model)
        return d is not None and d[:len(what_key)] == what_key
    lines = text.split("\n")
    if len(lines) > 300 or not bad(text):
        return text
    changed = True
    while changed and len(lines) > 1:
        changed = False
        for i in range(len(lines)):
            cand = lines[:i] + lines[i + 1:]
            if bad("\n".join(cand)):
                lines, changed = cand, True
                break
    return "\n".join(lines)


def text_family(rep, n_seq, n_mut, n_gen, nproc=16, label="text"):
    """returns the list of (minimised) disagreements; records coverage in rep"""
    stories = fam_total.repo_stories()
    jobs = []
    for kind, n in (("repo", len(stories)), ("seq", n_seq), ("mut", n_mut), ("gen", n_gen), ("genmut", n_gen // 2)):
        chunk = max(1, n // (nproc * 2))
        idxs = list(range(n))
        jobs += [(rep.seed, kind, idxs[i:i + chunk]) for i in range(0, n, chunk)]
    outs = framework.pmap(_chunk, jobs, nproc)
    fam, hashes, dis = {}, set(), []
    for (_, kind, _), o in zip(jobs, outs):
        f = fam.setdefault(label + "-" + kind, {"cases": 0, "skipped_non_ascii": 0, "agree": 0, "outcomes": {}, "located_diagnostics": 0})
        if "driver_error" in o:
            rep.infra_errors.append("text family: " + o["driver_error"])
            continue
        f["cases"] += o["n"]
        f["skipped_non_ascii"] += o["skipped"]
        f["agree"] += o["agree"]
        f["located_diagnostics"] += o["diag_lines"]
        for k, v in o["outcomes"].items():
            f["outcomes"][k] = f["outcomes"].get(k, 0) + v
        hashes.update(o["hashes"])
        dis += o["disagreements"]
    rep.coverage.setdefault("families", {}).update(fam)
    n = sum(f["cases"] for f in fam.values())
    rep.coverage["traces_validated_against_impl"] = rep.coverage.get("traces_validated_against_impl", 0) + n
    rep.coverage["evaluations"] = rep.coverage.get("evaluations", 0) + n
    rep.coverage["distinct_texts"] = rep.coverage.get("distinct_texts", 0) + len(hashes)
    seen = {}
    for d in dis:
        key = d["what"].split(":")[0] + "|" + d["what"][:40]
        if key in seen:
            continue
        seen[key] = d
    result = []
    for d in list(seen.values())[:6]:
        d = dict(d)
        d["original"] = d["source"]
        d["source"] = minimise(d["source"], re.sub(r"[\[.].*", "", d["what"][:48]) if d["what"].startswith("stories differ") else d["what"].split(":")[0])
        result.append(d)
    return result, len(dis)


# ---------------------------------------------------------------------------------------------- C12: the initial passage

_HEAD = re.compile(r"^:: ([A-Za-z_][A-Za-z0-9_.]*)")


def initial_passage_family(rep, n):
    """C12: a story the compiler returns names an existing initial passage: the one given by @start, else "Start", else the
    FIRST passage of the source.  The expectation is read off the source text independently (header lines in order)."""
    stories = fam_total.repo_stories()
    bad = checked = 0
    from bardic.compiler.compiler import BardCompiler
    for idx in range(n):
        r = rng_for(rep.seed, "initial", idx)
        k = r.random()
        if k < 0.5:
            names = r.sample(["Zeta", "Mid", "Alpha", "beta", "_x", "Scene.One", "Start", "B2"], r.randint(1, 5))
            if r.random() < 0.6 and "Start" in names:
                names.remove("Start")
            lines = []
            if r.random() < 0.3 and names:
                lines.append("@start " + r.choice(names))
            for nm in names:
                par = r.choice(["", "", "", "(x)", "(x=1)", "(x=)", "(x, y=x)"])
                lines += [":: " + nm + par + r.choice(["", " ^t", " // c"]), r.choice(["hello", "{1}", "~ x = 1"]),
                          r.choice(["", "+ [go] -> " + r.choice(names) + r.choice(["", "", "()", "(1)"])])]
            text = "\n".join(lines) + "\n"
        elif k < 0.75:
            text = fam_total.gen_sequence(r, 6)
        else:
            text = fam_total.mutate(r, stories[idx % len(stories)][1])
        if "py" in text:
            continue            # header-looking lines inside Python blocks are code: the textual expectation would be unsound
        try:
            with quiet(), time_limit(10):
                story = BardCompiler().compile_string(text)
        except BaseException as e:  # noqa
            if isinstance(e, KeyboardInterrupt):
                raise
            continue
        checked += 1
        heads = [m.group(1) for m in (_HEAD.match(l) for l in text.split("\n")) if m]
        heads = [h for h in heads if h in story["passages"]]
        starts = [l.strip()[7:].strip() for l in text.split("\n") if l.strip().startswith("@start ")]
        starts = [re.sub(r"\s*//.*$", "", s_) for s_ in starts]
        exp = starts[-1] if starts else ("Start" if "Start" in story["passages"] else (heads[0] if heads else None))
        got = story.get("initial_passage")
        problems = []
        if got not in story["passages"]:
            problems.append(f"initial passage {got!r} is not a passage of the story")
        elif exp is not None and exp in story["passages"] and got != exp and len(set(starts)) <= 1:
            problems.append(f"initial passage is {got!r}; @start / Start / first-passage rule gives {exp!r}")
        for key, p in story["passages"].items():
            if p.get("id") != key:
                problems.append(f"passage keyed {key!r} has id {p.get('id')!r}")
        # "so the engine can load it": constructing an engine enters the initial passage; that must not fail for a reason the
        # compiler could have seen (arguments the initial passage's parameters do not accept, a default that is no expression)
        try:
            from bardic.runtime.engine import BardEngine
            import copy as _copy
            with quiet(), time_limit(10):
                BardEngine(_copy.deepcopy(story))
        except ValueError as e:
            if "Required parameter" in str(e) or "invalid syntax" in str(e) or "Error calling passage" in str(e) and "not defined" not in str(e):
                problems.append(f"the engine cannot load the compiled story: {str(e)[:140]}")
        except BaseException:  # noqa  (author code failing at run time is not C12's matter)
            pass
        for imp_ in story.get("imports", []):
            try:
                orig_parse = getattr(pyast.parse, "__wrapped__", pyast.parse)
                orig_parse(imp_)
            except (SyntaxError, ValueError):
                problems.append(f"the compiled story lists {imp_!r} among its imports; it is not Python, so no engine can load the story")
        try:
            if json.loads(json.dumps(story, allow_nan=False)) != story:
                problems.append("the story changes in a JSON round trip")
        except (TypeError, ValueError) as e:
            problems.append(f"the story is not plain JSON data: {e}")
        for pr in problems:
            bad += 1
            rep.violations.append({"cls": None, "family": "c12-initial", "what": pr, "source": text})
    rep.coverage.setdefault("families", {})["c12-initial"] = {"cases": n, "compiled": checked, "failing": bad}
    rep.coverage["evaluations"] = rep.coverage.get("evaluations", 0) + checked


def symlink_start_probe(rep, label="c12-symlink"):
    """the initial passage does not depend on how the path to the story file is spelled: through a symlinked directory, a
    symlinked file, a relative path, with includes"""
    import tempfile, shutil
    from bardic.compiler.parsing.io import parse_file
    from bardic.compiler.compiler import BardCompiler
    d = tempfile.mkdtemp(prefix="verif_link_")
    n = 0
    cwd = os.getcwd()
    try:
        real = os.path.join(d, "real", "game")
        os.makedirs(real)
        open(os.path.join(real, "story.bard"), "w").write("@start Cellar\n@include part.bard\n:: Start\nstart\n+ [go] -> Cellar\n")
        open(os.path.join(real, "part.bard"), "w").write(":: Cellar\ncellar\n+ [up] -> Start\n")
        os.symlink(os.path.join(d, "real"), os.path.join(d, "link"))
        os.symlink(os.path.join(real, "story.bard"), os.path.join(d, "alias.bard"))
        os.chdir(os.path.join(d, "real"))
        for path in (os.path.join(real, "story.bard"), os.path.join(d, "link", "game", "story.bard"), os.path.join(d, "alias.bard"),
                     "game/story.bard", "./game/../game/story.bard", os.path.join(d, "link", "game", "..", "game", "story.bard")):
            for label_, f in (("parse_file", lambda: parse_file(path)),
                              ("compile_file", lambda: (BardCompiler().compile_file(path, os.path.join(d, "o.json")), json.load(open(os.path.join(d, "o.json"))))[1])):
                n += 1
                try:
                    with quiet():
                        st = f()
                except Exception as e:  # noqa
                    if path.endswith("alias.bard"):
                        continue       # (the include is looked up next to the link or next to the file: either is a defensible reading)
                    rep.violations.append({"cls": None, "family": label, "what": f"{label_}({path!r}): {type(e).__name__}: {str(e)[:120]}"})
                    continue
                if st.get("initial_passage") != "Cellar":
                    rep.violations.append({"cls": None, "family": label,
                                           "what": f"{label_} of the story reached as {path!r} names the initial passage {st.get('initial_passage')!r}; its @start line says Cellar"})
    finally:
        os.chdir(cwd)
        shutil.rmtree(d, ignore_errors=True)
    rep.coverage.setdefault("families", {})[label] = {"cases": n}
    rep.coverage["evaluations"] = rep.coverage.get("evaluations", 0) + n


def import_lines_probe(rep, label="c12-imports"):
    """a story the compiler accepts lists only Python among its imports (the engine executes them as they stand)"""
    from bardic.compiler.compiler import BardCompiler
    n = 0
    for head in ("from the hills a wind blows", "  import os", "import x // note", "from x import (", "import 9", "import os\nfrom here to there",
                 "# title\n\nimport os\nfrom math import floor", "from . import y", "import os, sys"):
        text = head + "\n:: Start\nhi\n"
        n += 1
        try:
            with quiet():
                story = BardCompiler().compile_string(text)
        except (SyntaxError, ValueError):
            continue
        except Exception as e:  # noqa
            rep.violations.append({"cls": None, "family": label, "what": f"compile raised {type(e).__name__}", "source": text})
            continue
        for imp_ in story.get("imports", []):
            try:
                compile(imp_, "<import>", "exec")
            except (SyntaxError, ValueError):
                rep.violations.append({"cls": None, "family": label, "source": text,
                                       "what": f"the compiled story lists {imp_!r} among its imports; it is not Python, so no engine can load the story"})
    rep.coverage.setdefault("families", {})[label] = {"cases": n}
    rep.coverage["evaluations"] = rep.coverage.get("evaluations", 0) + n
