"""Shared plumbing for the verification harness.

The real code is always imported from BARDIC_REPO (default /repo) so that checks run against the
current working tree; self-tests point it at a scratch copy.
"""
import contextlib
import hashlib
import io
import json
import os
import random
import re
import signal
import subprocess
import sys
import time

VERIF = os.path.dirname(os.path.dirname(os.path.abspath(__file__)))
REPO = os.environ.get("BARDIC_REPO", "/repo")
LEAN_DIR = os.path.join(VERIF, "lean")
DRIVER = os.path.join(LEAN_DIR, ".lake", "build", "bin", "driver")

if REPO not in sys.path:
    sys.path.insert(0, REPO)
# make sure an installed (editable) copy cannot shadow the tree under test
for _m in [m for m in sys.modules if m == "bardic" or m.startswith("bardic.")]:
    del sys.modules[_m]


def seed_from_env(default=0):
    try:
        return int(os.environ.get("VERIF_SEED", default))
    except ValueError:
        return default


def tier_from_env(default="quick"):
    t = os.environ.get("VERIF_TIER", default)
    return t if t in ("quick", "thorough") else default


class Timeout(BaseException):
    """raised by `time_limit`; a BaseException so that the `except Exception` handlers of the code under test (the
    engine wraps author code in many of them) cannot swallow it"""


@contextlib.contextmanager
def time_limit(seconds):
    """Interrupt pure-Python code after `seconds` (wall clock)."""
    def handler(signum, frame):
        raise Timeout()
    old = signal.signal(signal.SIGALRM, handler)
    # repeating: should a handler of the code under test swallow the exception all the same, it is raised again
    signal.setitimer(signal.ITIMER_REAL, seconds, 0.25)
    try:
        yield
    finally:
        signal.setitimer(signal.ITIMER_REAL, 0)
        signal.signal(signal.SIGALRM, old)


@contextlib.contextmanager
def quiet():
    """The engine and compiler print warnings; keep them out of the check's output."""
    out, err = sys.stdout, sys.stderr
    sys.stdout = io.StringIO()
    sys.stderr = io.StringIO()
    try:
        yield
    finally:
        sys.stdout, sys.stderr = out, err


def exc_kind(e):
    """Map a Python exception to the model's exception kinds."""
    if isinstance(e, RecursionError):
        return "RecursionError"
    if isinstance(e, RuntimeError):
        return "RuntimeError"
    if isinstance(e, IndexError):
        return "IndexError"
    if isinstance(e, TypeError):
        return "TypeError"
    if isinstance(e, ValueError):
        return "ValueError"
    return "Other"


_MARK = re.compile(r"\{ERROR[^}]*\}")


def canon_text(s):
    """Error markers are compared as opaque: `{ERROR: <anything up to the closing brace>}`."""
    if not isinstance(s, str):
        return s
    # the browser copy's loop-failure marker embeds a whole Python message (code, braces, traceback):
    # it cannot be delimited, so the text is compared up to that marker only
    k = s.find("{ERROR: Loop failed")
    if k >= 0:
        s = s[:k] + "{ERROR-LOOP...}"
    return _MARK.sub("{ERROR}", s)


def run_driver(lines, timeout=600):
    """Pipe JSON lines to the compiled Lean driver; returns the decoded answers."""
    if not os.path.exists(DRIVER):
        raise RuntimeError("driver not built: run `cd lean && lake build Bardic driver`")
    data = "\n".join(json.dumps(l) for l in lines) + "\n"
    p = subprocess.run([DRIVER], input=data.encode(), stdout=subprocess.PIPE, stderr=subprocess.PIPE,
                       timeout=timeout)
    if p.returncode != 0:
        raise RuntimeError("driver failed: " + p.stderr.decode()[-2000:])
    outs = [json.loads(l) for l in p.stdout.decode().split("\n") if l.strip()]
    if len(outs) != len(lines):
        raise RuntimeError(f"driver answered {len(outs)} lines for {len(lines)} cases")
    return outs


def chash(obj):
    return hashlib.sha256(json.dumps(obj, sort_keys=True, default=str).encode()).hexdigest()[:16]


def rng_for(seed, *labels):
    h = hashlib.sha256(("|".join([str(seed)] + [str(l) for l in labels])).encode()).digest()
    return random.Random(int.from_bytes(h[:8], "big"))
