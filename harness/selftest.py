"""Development aid (not used by any registered command): confirm a seeded mutant and run checks on it.

usage: selftest.py <mutant-dir> <Cxx> [<Cyy> ...]      (mutant-dir holds patch.diff and demo.py)
Creates a scratch git worktree of /repo under /tmp/st, applies the patch, runs the pinned suite and
the demo, then the given checks with BARDIC_REPO pointing at the worktree; removes the worktree."""
import json
import os
import shutil
import subprocess
import sys

VERIF = os.path.dirname(os.path.dirname(os.path.abspath(__file__)))


def sh(cmd, cwd=None, env=None, timeout=1800):
    p = subprocess.run(cmd, shell=True, cwd=cwd, env=env, stdout=subprocess.PIPE, stderr=subprocess.STDOUT, timeout=timeout)
    return p.returncode, p.stdout.decode(errors="replace")


def main():
    mdir = os.path.abspath(sys.argv[1])
    checks = sys.argv[2:]
    name = os.path.basename(mdir.rstrip("/"))
    wt = f"/tmp/st/{name}"
    os.makedirs("/tmp/st", exist_ok=True)
    sh(f"git -C /repo worktree remove --force {wt}")
    rc, out = sh(f"git -C /repo worktree add -q --detach {wt} HEAD")
    res = {"mutant": name}
    try:
        demo = os.path.join(mdir, "demo.py")
        env = dict(os.environ, PYTHONPATH=wt)
        rc0, _ = sh(f"/venv/bin/python {demo}", cwd=wt, env=env, timeout=300)
        res["demo_clean_rc"] = rc0
        rc, out = sh(f"git apply --3way {mdir}/patch.diff || git apply {mdir}/patch.diff", cwd=wt)
        res["apply_rc"] = rc
        if rc != 0:
            res["apply_out"] = out[-500:]
            print(json.dumps(res))
            return
        rc, out = sh("/venv/bin/python -m pytest -q -p no:cacheprovider -x 2>&1 | tail -1", cwd=wt, env=env, timeout=900)
        res["tests"] = out.strip()[-80:]
        rc1, out1 = sh(f"/venv/bin/python {demo}", cwd=wt, env=env, timeout=300)
        res["demo_mutant_rc"] = rc1
        for c in checks:
            env2 = dict(os.environ, BARDIC_REPO=wt, VERIF_EVIDENCE_DIR="/tmp/st/evidence")
            rc, out = sh(f"{VERIF}/check {c}", cwd=VERIF, env=env2, timeout=3600)
            lines = [l for l in out.splitlines() if l.startswith(("VIOLATION", "[C", "KNOWN", "INFRA"))]
            res[c] = {"rc": rc, "lines": lines[-4:]}
    finally:
        sh(f"git -C /repo worktree remove --force {wt}")
        shutil.rmtree(wt, ignore_errors=True)
    print(json.dumps(res, indent=1))


if __name__ == "__main__":
    main()
