"""C14: every kind of single malformed construct the parser diagnoses, placed on every top-level line
position of valid stories, in the main file, inside an included file and after included content;
the reported (file, line) must be where the construct stands in the file the author wrote."""
import os
import re
import shutil
import tempfile

from common import rng_for, chash, quiet, time_limit, Timeout
import framework

# (name, lines, index of the offending line within the snippet, location class)
BAD = [
    ("hook-args", ["@hook turn_end"], 0), ("unhook-args", ["@unhook a b c"], 0),
    ("render-empty", ["@render"], 0), ("render-hint", ["@render:react"], 0),
    ("input-empty", ["@input"], 0), ("input-noname", ['@input label="x"'], 0),
    ("stmt-syntax", ["~ x = = 1"], 0), ("stmt-multiline", ["~ q = [", "  1,", "  2 2", "]"], 2),
    ("stmt-multiline-notes", ["~ q = [", "  # note", "  1,", "  # another", "  2 2", "]"], 4), ("stmt-multiline-notes-end", ["~ q = [", "  # note", "  1,", "  # another", "  2 +", "]"], 5),
    ("brace-open", ["text {unclosed"], 0), ("brace-close", ["text } stray"], 0),
    ("if-colon", ["@if x"], 0), ("for-colon", ["@for x in y"], 0), ("for-legacy", ["<<for x y>>"], 0),
    ("py-colon", ["@py"], 0), ("if-legacy", ["<<if x"], 0),
    ("elif-colon", ["@if f:", "A", "@elif g", "B", "@endif"], 2), ("else-colon", ["@if f:", "A", "@else", "B", "@endif"], 2),
    ("elif-legacy", ["<<if f>>", "A", "<<elif g", "B", "<<endif>>"], 2),
    ("endif-colon", ["@if f:", "A", "@endif:"], 2), ("endfor-colon", ["@for it in ys:", "A", "@endfor:"], 2),
    ("choice-arrow", ["+ [no arrow]"], 0), ("choice-bracket", ["+ no bracket -> Start"], 0),
    ("choice-empty", ["+ [] -> Start"], 0), ("choice-target", ["+ [x] -> "], 0), ("choice-cond", ["+ {f [x] -> Start"], 0),
    ("header-name", [":: bad name"], 0), ("header-params", [":: Zq(x=1, y)"], 0), ("header-dup-param", [":: Zq(x, x)"], 0),
    ("header-kw-param", [":: Zq(class)"], 0),
    ("brace-in-join", ["+ [jj] -> @join", "    ok line", "    text {unclosed", "@join"], 2),
    ("brace-in-join-comment", ["+ [jk] -> @join", "    # a comment", "    ok line", "", "    text } stray", "@join"], 4),
    # diagnosed while parsing a dedented block body / by the argument validator
    ("brace-in-if", ["@if f:", "  text {unclosed", "@endif"], 1), ("brace-in-for", ["@for it in ys:", "  text } stray", "@endfor"], 1),
    ("unknown-target", ["+ [go] -> Nowhere9"], 0), ("surplus-args", ["+ [go] -> Start(1)"], 0),
    # block directives diagnosed one and two @if levels down
    ("if-colon-d1", ["@if f:", "  @if g", "  @endif", "@endif"], 1),
    ("if-colon-d2", ["@if f:", "  @if g:", "    @if f", "    @endif", "  @endif", "@endif"], 2),
    ("elif-colon-d2", ["@if f:", "  @if g:", "    A", "  @elif f", "    B", "  @endif", "@endif"], 3),
    ("else-colon-d2", ["@if f:", "  @if g:", "    A", "  @else", "    B", "  @endif", "@endif"], 3),
    ("endif-colon-d2", ["@if f:", "  @if g:", "    A", "  @endif:", "@endif"], 3),
    ("py-colon-d2", ["@if f:", "  @if g:", "    @py", "    @endpy", "  @endif", "@endif"], 2),
    ("for-colon-d2", ["@if f:", "  @if g:", "    @for it in ys", "    @endfor", "  @endif", "@endif"], 2),
    ("if-colon-in-for", ["@for it in ys:", "  A", "  @if g", "  @endif", "@endfor"], 2),
    ("py-colon-in-for", ["@for it in ys:", "  A", "  @py", "  @endpy", "@endfor"], 2),
    # directive lines that are silently dropped inside blocks today: should they ever be diagnosed, then at their own line
    ("input-in-for", ["@for it in ys:", "  A", "  @input", "  B", "@endfor", "after"], 2), ("render-in-for", ["@for it in ys:", "  A", "  B", "  @render", "@endfor", "after"], 3),
    ("renderhint-in-for", ["@for it in ys:", "  @render:react", "  A", "@endfor", "after", "more"], 1), ("input-noname-in-for", ["@for it in ys:", "  A", '  @input label="x"', "@endfor", "z"], 2),
    ("input-in-if", ["@if f:", "  A", "  @input", "@endif"], 2), ("render-in-if", ["@if f:", "  A", "  @render", "  B", "@endif"], 2),
    ("hook-in-for", ["@for it in ys:", "  A", "  @hook turn_end", "@endfor", "z"], 2), ("hook-in-if", ["@if f:", "  @unhook a b c", "@endif"], 1),
    ("input-in-nested-for", ["@for it in ys:", "  @for w in ys:", "    A", "    @input", "  @endfor", "@endfor", "z"], 3),
    # malformed @include lines (diagnosed by the include resolver, in the coordinates of the file they stand in)
    ("include-nopath", ["@include"], 0), ("include-two", ["@include a.bard b.bard"], 0), ("include-blank", ["@include   "], 0),
    ("elif-colon-d3", ["@if f:", "  @if g:", "    @if f:", "      A", "    @elif g", "      B", "    @endif", "  @endif", "@endif"], 4),
]
# constructs whose error stands at the opening line and which swallow the rest of the file
UNCLOSED = [("if-unclosed", ["@if f:", "A"], 0), ("for-unclosed", ["@for it in ys:", "A"], 0), ("py-unclosed", ["@py:", "x = 1"], 0)]


def base_story(r, n_passages):
    """a flat valid story: list of top-level lines; returns (lines, insertion points)"""
    lines = [":: Start", "~ f = True", "~ g = False", "~ ys = [1, 2]", "~ n = 0"]
    names = ["Start"] + [f"P{i}" for i in range(1, n_passages)]
    points = []
    for i, name in enumerate(names):
        if i > 0:
            lines.append(f":: {name}")
        for _ in range(r.randint(1, 4)):
            points.append(len(lines))
            k = r.random()
            if k < 0.4:
                lines.append(r.choice(["You look around.", "It is cold {n}.", "Nothing {f ? here | there}."]))
            elif k < 0.55:
                lines.append("~ n = n + 1")
            elif k < 0.65:
                lines.append("")
            elif k < 0.8:
                lines += ["@if f:", "  inside", "@endif"]
            elif k < 0.9:
                lines += ["@for it in ys:", "  item {it}", "@endfor"]
            else:
                lines += ["@py:", "n = n + 1", "@endpy"]
        points.append(len(lines))
        lines.append(f"+ [go] -> {r.choice(names)}")
        lines.append("")
    return lines, points


def compile_and_locate(main_path):
    from bardic.compiler.compiler import BardCompiler
    out = os.path.join(os.path.dirname(main_path), "_o.json")
    try:
        with quiet(), time_limit(10):
            BardCompiler().compile_file(main_path, out)
        return ("compiled", None, None, "")
    except Timeout:
        return ("timeout", None, None, "")
    except Exception as e:  # noqa
        msg = str(e)
        m = re.search(r"in (\S+)\s+on line (\d+):", msg) or re.search(r"on line (\d+):", msg)
        if m and m.lastindex == 2:
            return (type(e).__name__, m.group(1), int(m.group(2)), msg)
        if m:
            return (type(e).__name__, None, int(m.group(1)), msg)
        m2 = re.search(r"^Line (\d+):", msg)
        if m2:
            return (type(e).__name__, None, int(m2.group(1)), msg)
        return (type(e).__name__, None, None, msg)


def one_case(seed, idx):
    r = rng_for(seed, "diag", idx)
    lines, points = base_story(r, r.randint(1, 3))
    results = []
    all_bad = BAD + ([r.choice(UNCLOSED)] if r.random() < 0.5 else [])
    d = tempfile.mkdtemp(prefix="verif_diag_")
    try:
        for name, snippet, off in all_bad:
            pos = r.choice(points)
            placement = r.choice(["main", "included", "after-include", "first-lines", "twice"])
            new_lines = lines[:pos] + snippet + lines[pos:]
            if r.random() < 0.3 and pos > 1:
                # a text line holding a character that str.splitlines() - but not the compiler's split("\n") - treats as a line end
                k_ = r.randrange(1, pos)
                if new_lines[k_].strip() and not new_lines[k_].lstrip().startswith(("::", "@", "+", "*", "~", "<<", "->", "#")):
                    new_lines = new_lines[:k_] + [new_lines[k_] + r.choice(["\x0c", "\u2028", "\x85", "\x1c", "\x0b"]) + "more"] + new_lines[k_ + 1:]
            main = os.path.join(d, "main.bard")
            inc = os.path.join(d, "parts", "inc.bard")
            os.makedirs(os.path.dirname(inc), exist_ok=True)
            if placement == "main":
                files = {main: new_lines}
                exp_file, exp_line = main, pos + off + 1
            elif placement == "twice":
                # a snippet of plain text included twice - first on the very first line of the main file, then inside the
                # passage just above the construct
                files = {main: ["@include parts/inc.bard"] + new_lines[:pos] + ["@include parts/inc.bard"] + new_lines[pos:], inc: ["snippet text", "more snippet"]}
                exp_file, exp_line = main, 1 + pos + 1 + off + 1
            elif placement == "first-lines":
                # the main file's first line is the @include, the construct stands on the first line(s) of the included file
                files = {main: ["@include parts/inc.bard"] + lines, inc: snippet + ["", ":: Inc_Part", "text"]}
                exp_file, exp_line = inc, off + 1
            else:
                # split the story: lines[a:b] live in the included file
                cut_a = r.choice([p for p in points if p <= pos] or [pos])
                cut_b = r.choice([p for p in points if p >= pos] or [pos])
                if placement == "included":
                    # the malformed construct is inside the included part
                    a, b = cut_a, cut_b + len(snippet)
                    a = min(a, pos)
                    b = max(b, pos + len(snippet))
                    incl = new_lines[a:b]
                    mainl = new_lines[:a] + ["@include parts/inc.bard"] + new_lines[b:]
                    exp_file, exp_line = inc, (pos - a) + off + 1
                else:
                    # included content comes first, the malformed construct afterwards in the main file
                    a = r.choice([p for p in points if p <= pos])
                    b = pos
                    if a == b:
                        a = max(1, b - 1) if b > 1 else b
                    incl = new_lines[a:b] or [""]
                    mainl = new_lines[:a] + ["@include parts/inc.bard"] + new_lines[b:]
                    exp_file, exp_line = main, a + 1 + (pos - b) + off + 1
                files = {main: mainl, inc: incl}
            for p, ls in files.items():
                with open(p, "w", encoding="utf-8") as f:
                    f.write("\n".join(ls))
            kind, rf, rl, msg = compile_and_locate(main)
            results.append({"name": name, "placement": placement, "pos": pos, "kind": kind, "file": rf, "line": rl,
                            "exp_file": exp_file, "exp_line": exp_line, "msg": msg[:300], "full": msg[:2000],
                            "files": {os.path.relpath(p, d): "\n".join(ls) for p, ls in files.items()}})
    finally:
        shutil.rmtree(d, ignore_errors=True)
    return results


def judge(res):
    """failures of the property for one placement"""
    f = []
    if res["kind"] == "compiled":
        # the construct was not diagnosed at all here: not a C14 matter (C11/C17 territory)
        return f, "not-diagnosed"
    if res["kind"] not in ("SyntaxError", "ValueError"):
        f.append({"cls": None, "what": f"{res['name']} ({res['placement']}): escaped as {res['kind']}"})
        return f, "escaped"
    if res["line"] is None:
        f.append({"cls": "C14-no-location", "what": f"{res['name']} ({res['placement']}): the diagnostic carries no line at all"})
        return f, "no-line"
    ok_file = res["file"] is None and res["placement"] == "main" or \
        (res["file"] is not None and os.path.realpath(res["file"]) == os.path.realpath(res["exp_file"]))
    # compare by file name tail (the temp dir is gone)
    ok_file = ok_file or (res["file"] is not None and os.path.basename(res["file"]) == os.path.basename(res["exp_file"]))
    # the context lines shown around the error carry the numbers they have in the file they come from
    files_ = {os.path.basename(k): v.split("\n") for k, v in res["files"].items()}
    boundaries = re.findall(r"^\s+--- from (.+) ---$", res.get("full", ""), re.M)
    cur = None if boundaries else os.path.basename(res["file"] or "main.bard")
    for ln in res.get("full", "").split("\n"):
        b = re.match(r"^\s+--- from (.+) ---$", ln)
        if b:
            cur = os.path.basename(b.group(1))
            continue
        g = re.match(r"^\s*(-?\d+) \| (.*)$", ln)
        if g:
            num, text = int(g.group(1)), g.group(2)
            cands = [files_[cur]] if cur in files_ else list(files_.values())
            if not any(0 < num <= len(c) and c[num - 1].strip() == text.strip() for c in cands):      # (loop bodies are shown dedented)
                f.append({"cls": None, "what": f"{res['name']} ({res['placement']}): the context of the diagnostic shows {text!r} as line {num}"
                                               f"{' of ' + cur if cur else ''}; no such line stands there"})
                return f, "wrong-context"
    if not ok_file or res["line"] != res["exp_line"]:
        f.append({"cls": None, "what": f"{res['name']} placed in {os.path.basename(res['exp_file'])} line {res['exp_line']} "
                                       f"({res['placement']}) is reported in {os.path.basename(res['file'] or 'main.bard')} line {res['line']}"})
        return f, "wrong"
    return f, "right"


def _chunk(arg):
    seed, idxs = arg
    out = {"cases": 0, "placements": 0, "verdicts": {}, "fails": [], "samples": [], "hashes": [], "by_kind": {}}
    for idx in idxs:
        try:
            rs = one_case(seed, idx)
        except Exception as e:  # noqa
            out["fails"].append({"cls": None, "what": f"harness error {type(e).__name__}: {e}", "family": "c14-diag", "id": f"s{seed}-diag-{idx}"})
            continue
        out["cases"] += 1
        for res in rs:
            out["placements"] += 1
            fs, v = judge(res)
            out["verdicts"][v] = out["verdicts"].get(v, 0) + 1
            out["by_kind"].setdefault(res["name"], {}).setdefault(v, 0)
            out["by_kind"][res["name"]][v] += 1
            for x in fs:
                x.update({"family": "c14-diag", "id": f"s{seed}-diag-{idx}", "placement": res})
                out["fails"].append(x)
            out["hashes"].append(chash([res["files"], res["name"]]))
        if not out["samples"] and rs:
            out["samples"].append({k: rs[0][k] for k in ("name", "placement", "exp_line", "line", "files")})
    return out


def diag_family(rep, n_cases, known_classes=(), nproc=16):
    chunk = max(1, n_cases // (nproc * 2))
    idxs = list(range(n_cases))
    outs = framework.pmap(_chunk, [(rep.seed, idxs[i:i + chunk]) for i in range(0, n_cases, chunk)], nproc)
    tot = {"cases": 0, "placements": 0, "verdicts": {}, "by_kind": {}}
    hashes = set()
    for o in outs:
        tot["cases"] += o["cases"]
        tot["placements"] += o["placements"]
        for k, v in o["verdicts"].items():
            tot["verdicts"][k] = tot["verdicts"].get(k, 0) + v
        for k, d in o["by_kind"].items():
            for v, n in d.items():
                tot["by_kind"].setdefault(k, {}).setdefault(v, 0)
                tot["by_kind"][k][v] += n
        for f in o["fails"]:
            if f["cls"] is not None and f["cls"] in known_classes:
                rep.known_hits[f["cls"]] = rep.known_hits.get(f["cls"], 0) + 1
            else:
                rep.violations.append(f)
        if len(rep.samples) < 2:
            rep.samples.extend(o["samples"][:1])
        hashes.update(o["hashes"])
    cov = rep.coverage
    cov["evaluations"] = cov.get("evaluations", 0) + tot["placements"]
    cov["distinct_nontrivial"] = cov.get("distinct_nontrivial", 0) + len(hashes)
    cov.setdefault("families", {})["c14-diag"] = tot
    return tot
