"""C05 save/load family on the REAL engine: save at random points of generated histories, JSON round
trip, load into a fresh engine, compare the situation and every continuation with the original
session; malformed documents must be rejected with ValueError leaving the running game untouched."""
import copy
import json

from common import rng_for, chash, quiet
import corr_play
import real_play
import framework
from compare import norm
from oracles import strip_hist as _strip_hist


def strip_hist(st):
    """history depths dropped; @join progress compared as a function (absent = section 0)"""
    st = _strip_hist(st)
    # only the current passage's progress is observable: every other passage restarts when entered
    return dict(st, join={k: v for k, v in st.get("join", {}).items() if v and k == st.get("cur")})

CONT_OPS = {"choose", "goto", "current", "has_choices", "is_end", "choice_texts", "choice_targets", "story_info", "save_meta"}


def replay_to(story, ops, k):
    rp = real_play.RealPlay(story)
    st, init = rp.start()
    if st != "ok":
        return None, None
    last = init
    for o in ops[:k + 1]:
        last = rp.op(o)["state"]
    return rp, last


def malformed_docs(doc):
    out = [("not-a-dict", [1, 2]), ("no-version", {k: v for k, v in doc.items() if k != "version"}),
           ("unknown-passage", dict(doc, current_passage_id="No_Such_Passage")),
           ("state-int", dict(doc, state=5)), ("state-list", dict(doc, state=[1])),
           ("used-int", dict(doc, used_choices=5)), ("used-of-ints", dict(doc, used_choices=[1, 2])),
           ("hooks-int", dict(doc, hooks=3)), ("hooks-str-list", dict(doc, hooks={"turn_end": "H1"})),
           ("passage-int", dict(doc, current_passage_id=5)), ("passage-list", dict(doc, current_passage_id=["Start"])),
           ("string", "save"), ("none", None),
           # wrong types that are falsy (an `x or default` would let them through)
           ("state-zero", dict(doc, state=0)), ("state-empty-str", dict(doc, state="")), ("state-false", dict(doc, state=False)),
           ("state-empty-list", dict(doc, state=[])), ("used-zero", dict(doc, used_choices=0)), ("used-empty-str", dict(doc, used_choices="")),
           ("used-empty-dict", dict(doc, used_choices={})), ("used-false", dict(doc, used_choices=False)),
           ("hooks-empty-list", dict(doc, hooks=[])), ("hooks-zero", dict(doc, hooks=0)), ("hooks-empty-str", dict(doc, hooks="")),
           ("hooks-false", dict(doc, hooks=False)), ("passage-empty", dict(doc, current_passage_id="")), ("passage-none", dict(doc, current_passage_id=None)),
           ("empty-dict", {})]
    return out


def check_case(c, rng, n_points):
    fails = []
    story, ops = c["story"], c["ops"]
    def fail(what, cls=None, step=None, extra=None):
        fails.append({"cls": cls, "what": what, "step": step, "extra": extra})
    if not ops:
        return fails, 0
    points = sorted(set(rng.randrange(len(ops)) for _ in range(n_points)))
    evals = 0
    for k in points:
        A, a_state = replay_to(story, ops, k)
        if A is None:
            continue
        evals += 1
        before = real_play.state_obs(A.engine)
        with quiet():
            doc = A.engine.save_state()
        after = real_play.state_obs(A.engine)
        if before != after:
            fail("save_state() changed the running game", step=k)
        try:
            text = json.dumps(doc)
        except Exception as e:  # noqa
            fail(f"save data is not plain JSON: {e}", step=k)
            continue
        jd = json.loads(text)
        # ---- load into a fresh engine
        B = real_play.RealPlay(story)
        if B.start()[0] != "ok":
            continue
        r = B._call(lambda: (B.engine.load_state(copy.deepcopy(jd)), {"ret": None})[1])
        b_state = real_play.state_obs(B.engine)
        if "raise" in r:
            # the saved passage needs arguments, or its commands fail on re-entry
            cls = "C05-reentry"
            fail(f"loading a save taken at {a_state['cur']} raised {r['raise']}: {r.get('msg', '')[:80]}", cls, k)
            continue
        if b_state["nundo"] or b_state["nredo"]:
            fail("loading did not clear undo/redo history", step=k)
        same = norm(strip_hist(b_state)) == norm(strip_hist(a_state))
        ref = A
        if not same:
            # the known deviation: load re-enters the saved passage with goto(); anything beyond that is new
            C, _ = replay_to(story, ops, k)
            C._call(lambda: C.engine.goto(a_state["cur"]))
            c_state = real_play.state_obs(C.engine)
            if norm(strip_hist(c_state)) == norm(strip_hist(b_state)):
                fail("the loaded game differs from the saved one exactly by a re-entry of the saved passage", "C05-reentry", k)
                ref = C
            else:
                d = _first_key_diff(strip_hist(a_state), strip_hist(b_state))
                fail(f"the loaded game differs from the saved one (first difference: {d})", None, k)
                continue
        # ---- every continuation behaves like the original session
        for j, o in enumerate(ops[k + 1:k + 9]):
            if o["op"] not in CONT_OPS:
                continue
            ra = ref.op(o)
            rb = B.op(o)
            if norm(ra["resp"]) != norm(rb["resp"]) or norm(strip_hist(ra["state"])) != norm(strip_hist(rb["state"])):
                fail(f"continuation diverges at call {j} ({o['op']}) after the load", None if same else "C05-reentry", k)
                break
        # ---- malformed documents against a running game with history
        M, m_state = replay_to(story, ops, k)
        name, bad = rng.choice(malformed_docs(jd))
        r = M._call(lambda: (M.engine.load_state(copy.deepcopy(bad)), {"ret": None})[1])
        m_after = real_play.state_obs(M.engine)
        if r.get("raise") != "ValueError":
            fail(f"malformed save ({name}) answered {r.get('cls', r.get('raise', 'accepted'))} instead of ValueError", None, k)
        elif m_after != m_state:
            fail(f"rejected malformed save ({name}) changed the running game", None, k)
    return fails, evals


def _first_key_diff(a, b):
    for k in a:
        if norm(a[k]) != norm(b.get(k)):
            if k == "vars":
                ks = [x for x in set(a[k]) | set(b[k]) if a[k].get(x) != b[k].get(x)]
                return "vars:" + ",".join(sorted(ks)[:4])
            return k
    return "?"


def _chunk(arg):
    seed, idxs, n_ops, n_points = arg
    out = {"cases": 0, "points": 0, "fails": [], "samples": [], "hashes": []}
    for idx in idxs:
        rng = rng_for(seed, "saveload", idx)
        c = corr_play.make_case(seed, f"saveload:{idx}", dict(hooks=0.5, join=0.4, params=0.4, one_time=0.5, stmt_faults=0.03, faults=0.1),
                                n_ops, "main", dict(choose=75, goto=6, undo=6, redo=3, read=6, bad=2, save=0, load=0, fresh=0, loadbad=0, reset=1))
        if "story" not in c or c["real"].get("status") != "ok":
            continue
        out["cases"] += 1
        try:
            fs, ev = check_case(c, rng, n_points)
        except real_play.Unmodelled:
            continue
        out["points"] += ev
        for f in fs:
            f.update({"family": "c05-saveload", "id": c["id"], "source": c["source"], "ops": c["ops"]})
            out["fails"].append(f)
        out["hashes"].append(chash([c["source"], c["ops"]]))
        if not out["samples"]:
            out["samples"].append({"source": c["source"][:1200], "ops": c["ops"][:12]})
    return out


def saveload_family(rep, n_cases, n_ops, n_points, known_classes=(), nproc=16):
    chunk = max(1, n_cases // (nproc * 2))
    idxs = list(range(n_cases))
    args = [(rep.seed, idxs[i:i + chunk], n_ops, n_points) for i in range(0, n_cases, chunk)]
    outs = framework.pmap(_chunk, args, nproc)
    tot = {"cases": 0, "save_points": 0}
    hashes = set()
    for o in outs:
        tot["cases"] += o["cases"]
        tot["save_points"] += o["points"]
        for f in o["fails"]:
            if f["cls"] is not None and f["cls"] in known_classes:
                rep.known_hits[f["cls"]] = rep.known_hits.get(f["cls"], 0) + 1
            else:
                rep.violations.append(f)
        if len(rep.samples) < 3:
            rep.samples.extend(o["samples"][:1])
        hashes.update(o["hashes"])
    cov = rep.coverage
    cov["evaluations"] = cov.get("evaluations", 0) + tot["save_points"]
    cov["distinct_nontrivial"] = cov.get("distinct_nontrivial", 0) + len(hashes)
    cov.setdefault("families", {})["c05-saveload"] = tot
    return tot


# ------------------------------------------------------------------ sessions the engine model does not cover
# (names bound by import lines; text the player typed into @input forms): real code only

SESSIONS = [
    {"name": "hooks toggled after the load",
     "source": (":: Start\n~ hp = 9\n@hook turn_end Bleed\n@hook turn_end Regen\nA cut.\n+ [walk] -> Road\n\n"
                ":: Road\nRoad.\n+ [bandage] -> Bandage\n+ [curse] -> Curse\n+ [walk] -> Road\n\n"
                ":: Bandage\n@unhook turn_end Bleed\nBandaged {hp}.\n+ [walk] -> Road\n\n:: Curse\n@hook turn_end Bleed\n@unhook turn_end Regen\nCursed {hp}.\n+ [walk] -> Road\n\n"
                ":: Bleed\n~ hp = hp - 2\n\n:: Regen\n~ hp = hp + 1\n"),
     "pre": [("choose", 0)], "post": [("choose", 0), ("choose", 0), ("choose", 1), ("choose", 0), ("choose", 2)]},
    {"name": "non-finite floats",
     "source": (":: Start\n~ limit = float('inf')\n~ floor_ = -float('inf')\n~ half = 0.5\n~ best = {'score': float('inf'), 'runs': [1.5, float('inf')]}\n~ gold = 3\nGate.\n+ [Enter] -> Hall\n\n"
                ":: Hall\nGold {gold}, limit {limit}, half {half}.\n+ {gold < limit} [Earn] -> Earn\n+ {gold > floor_} [Look] -> Look\n+ {limit == 5} [Never] -> Hall\n\n"
                ":: Earn\n~ gold = gold + 1\n~ limit = limit if gold < 5 else 5\nEarned: {gold} of {limit} ({best['score'] > gold}).\n+ [Back] -> Hall\n\n"
                ":: Look\nBest {best['score']} {best['runs'][1] > 2} {type(limit).__name__} {half + 1}\n+ [Back] -> Hall\n"),
     "pre": [("choose", 0)], "post": [("choose", 0), ("choose", 0), ("choose", 1), ("choose", 0), ("choose", 0), ("choose", 0), ("choose", 0)]},
    {"name": "imports",
     "source": ("import math\nimport json\nimport bardic.stdlib.dice as dice\nfrom bardic.stdlib.economy import Wallet\n"
                ":: Start\n~ gold = 10\n~ purse = Wallet(5)\nAt the gate.\n+ [Enter] -> Hall\n\n"
                ":: Hall\nThe hall. {gold} gold.\n+ [Pay the toll] -> Toll\n+ [Count] -> Count\n\n"
                ":: Toll\n~ gold = math.floor(gold / 3)\n~ purse2 = Wallet(gold)\nThe keeper leaves you {gold} gold, purse {purse2.gold}.\n+ [Back] -> Hall\n\n"
                ":: Count\nYou have {purse.gold + math.ceil(0.5)}.\n+ [Back] -> Hall\n"),
     "pre": [("choose", 0)], "post": [("choose", 0), ("choose", 0), ("choose", 1), ("choose", 0)]},
    {"name": "inputs",
     "source": (":: Start\n@input name=\"reader_name\" label=\"Name\"\nWho are you?\n+ [Go] -> Road\n\n"
                ":: Road\nA road.\n+ [Camp] -> Camp\n\n"
                ":: Camp\nThe fire crackles. {_inputs.get('reader_name', 'Stranger')} sits down.\n+ [Walk] -> Road\n"
                "+ {_inputs.get('reader_name')} [Sign the guest book] -> Book\n\n"
                ":: Book\nSigned: {_inputs.get('reader_name', '?')}\n+ [Back] -> Camp\n"),
     "inputs": {"reader_name": "Kate"}, "pre": [("choose", 0)], "post": [("choose", 0), ("choose", 1), ("choose", 0), ("choose", 0)]},
    {"name": "stdlib-subclass",
     "source": ("from vclasses import Backpack\n"
                ":: Start\n~ pack = Backpack(10, 'Mira', 4)\n~ ok = pack.add({'name': 'Rope', 'weight': 4, 'value': 2})\n~ pack.max_weight = 3\nPacked.\n+ [Go] -> Road\n\n"
                ":: Road\nOn the road.\n+ [Look] -> Look\n\n"
                ":: Look\n{pack.describe()} weight {pack.current_weight}/{pack.max_weight}\n+ [Back] -> Road\n"),
     "pre": [("choose", 0)], "post": [("choose", 0), ("choose", 0), ("choose", 0)]},
    {"name": "state-underscore",
     "source": (":: Start\n~ _state['_seen'] = 1\nHi.\n+ [Go] -> Room\n\n:: Room\nRoom.\n+ [Look] -> Look\n\n"
                ":: Look\nSeen {_state.get('_seen', 0)}.\n+ [Back] -> Room\n"),
     "pre": [("choose", 0)], "post": [("choose", 0), ("choose", 0), ("choose", 0)]},
]


def _obs_session(e, post):
    out = []
    for name, i in post:
        try:
            with quiet():
                o = e.choose(i)
            out.append({"content": o.content, "choices": [c["text"] for c in o.choices], "pid": o.passage_id})
        except Exception as ex:  # noqa
            out.append({"raise": type(ex).__name__, "msg": str(ex)[:120]})
    return out


def session_probes(rep):
    """original session continues vs. save -> JSON -> load into a fresh engine continues: identical observations"""
    from bardic.runtime.engine import BardEngine
    n = 0
    for s in SESSIONS:
        n += 1
        try:
            with quiet():
                story = corr_play.compile_source(s["source"])
                a = BardEngine(copy.deepcopy(story))
                if s.get("inputs"):
                    a.submit_inputs(dict(s["inputs"]))
                for name, i in s["pre"]:
                    a.choose(i)
                doc = json.loads(json.dumps(a.save_state()))
                shown = a.current()
                b = BardEngine(copy.deepcopy(story))
                doc_before = copy.deepcopy(doc)
                b.load_state(doc)
                shown_b = b.current()
            first = None
            if (shown.content, [c["text"] for c in shown.choices]) != (shown_b.content, [c["text"] for c in shown_b.choices]):
                first = f"right after loading: {shown.content!r} {[c['text'] for c in shown.choices]} vs {shown_b.content!r} {[c['text'] for c in shown_b.choices]}"
            oa, ob = _obs_session(a, s["post"]), _obs_session(b, s["post"])
            if first is None and oa != ob:
                k = next(i for i, (x, y) in enumerate(zip(oa, ob)) if x != y)
                first = f"continuation call {k}: original {json.dumps(oa[k])[:200]} vs loaded {json.dumps(ob[k])[:200]}"
            if first is None and doc != doc_before:
                first = "the save document itself was changed by the game that loaded it (a second load of the same document gives another game)"
            if first is None:
                # the same parsed document loaded a second time, after the first loaded game has played on
                with quiet():
                    c_ = BardEngine(copy.deepcopy(story))
                    c_.load_state(doc)
                    oc = _obs_session(c_, s["post"])
                if oc != oa:
                    k = next(i for i, (x, y) in enumerate(zip(oa, oc)) if x != y)
                    first = f"a second load of the same document, continuation call {k}: original {json.dumps(oa[k])[:160]} vs loaded {json.dumps(oc[k])[:160]}"
            if first:
                rep.violations.append({"cls": None, "family": "c05-sessions", "what": f"session '{s['name']}' continues differently after save/load — {first}",
                                       "source": s["source"], "ops": [{"op": n_, "i": i} for n_, i in s["pre"] + s["post"]], "inputs": s.get("inputs")})
        except Exception as ex:  # noqa
            rep.violations.append({"cls": None, "family": "c05-sessions", "what": f"session '{s['name']}': {type(ex).__name__}: {str(ex)[:200]}", "source": s["source"]})
    rep.coverage.setdefault("families", {})["c05-sessions"] = {"cases": n, "what": [s["name"] for s in SESSIONS]}
    rep.coverage["evaluations"] = rep.coverage.get("evaluations", 0) + n



# ------------------------------------------------------------------ undo with standard-library objects (real code only)

SHOP_STORY = ("from bardic.stdlib.economy import Wallet, Shop\nfrom bardic.stdlib.inventory import Inventory\nfrom bardic.stdlib.relationship import Relationship\n"
              ":: Start\n~ w = Wallet(40)\n~ inv = Inventory(20)\n~ alex = Relationship('Alex', 50, 50, 0)\n~ alex.mood = 'wary'\n~ w.owner = 'you'\n"
              "~ shop = Shop([{'name': 'Rope', 'weight': 2, 'value': 10}, {'name': 'Gem', 'weight': 1, 'value': 30}], sell_back_rate=0.5)\n"
              "~ log = []\nMarket.\n+ [Enter] -> Stall\n\n"
              ":: Stall\nGold {w.gold}, carrying {len(inv.items)}, stock {len(shop.items)}.\n"
              "Alex is {alex.mood} ({alex.trust}).\n"
              "+ [Buy rope] -> Buy('Rope')\n+ [Buy gem] -> Buy('Gem')\n+ [Sell rope] -> Sell('Rope')\n+ [Sell gem] -> Sell('Gem')\n+ [Haggle] -> Haggle\n+ [Chat] -> Chat\n+ [Trip] -> Trip\n\n"
              ":: Chat\n~ alex.add_trust(7)\n~ alex.mood = 'warm' if alex.mood == 'wary' else 'wary'\n~ alex.topics_discussed.add('weather')\nYou chat. Alex is {alex.mood}.\n+ [Back] -> Stall\n\n"
              ":: Trip\n~ alex.mood = 'cross'\n~ w.spend(3)\n~ oops = 1 % 0\nNever shown.\n+ [Back] -> Stall\n\n"
              ":: Buy(what)\n~ ok = shop.buy(what, w, inv)\n~ log.append(('buy', what, ok))\nBought {what}: {ok}.\n+ [Back] -> Stall\n\n"
              ":: Sell(what)\n~ ok = shop.sell(what, w, inv)\n~ log.append(('sell', what, ok))\nSold {what}: {ok}.\n+ [Back] -> Stall\n\n"
              ":: Haggle\n~ shop.set_discount(0.5)\nCheaper now.\n+ [Back] -> Stall\n")


def undo_sessions(rep, n_walks):
    """random walks with undo / redo over a story whose variables are stdlib objects: after undo everything a story can
    observe of every variable is what it was before the undone choice; after redo what it was before the undo"""
    from bardic.runtime.engine import BardEngine
    import fam_codec
    def snap(e):
        with quiet():
            o = e.current()
        return {"vars": {k: fam_codec.observe(v) for k, v in e.state.items() if not k.startswith("_") and not isinstance(v, type) and not callable(v)},
                "content": o.content, "choices": [c["text"] for c in o.choices], "pid": e.current_passage_id}
    done = 0
    try:
        story = corr_play.compile_source(SHOP_STORY)
    except Exception as ex:  # noqa
        rep.violations.append({"cls": None, "family": "c04-stdlib", "what": f"probe story does not compile: {ex}", "source": SHOP_STORY})
        return
    for wi in range(n_walks):
        r = rng_for(rep.seed, "undo-sessions", wi)
        with quiet():
            e = BardEngine(copy.deepcopy(story))
        past, future, ops = [], [], []
        bad = None
        for step in range(r.randint(6, 24)):
            k = r.random()
            before = snap(e)
            if k < 0.6:
                n = len(before["choices"])
                if n == 0:
                    break
                i = r.randrange(n)
                ops.append({"op": "choose", "i": i})
                try:
                    with quiet():
                        e.choose(i)
                except (RuntimeError, ValueError):
                    pass        # author code failed during the choice: one undo must still restore the situation before it (C15)
                past.append(before)
                past = past[-50:]
                future = []
            elif k < 0.85:
                ops.append({"op": "undo"})
                with quiet():
                    ret = e.undo()
                if past:
                    want = past.pop()
                    future.append(before)
                    if ret is not True or snap(e) != want:
                        bad = f"undo did not restore what the story could observe before the undone choice: {json.dumps(fam_codec.first_diff(want, snap(e), ''))[:300]}"
                elif ret is not False:
                    bad = "undo with nothing to undo answered True"
            else:
                ops.append({"op": "redo"})
                with quiet():
                    ret = e.redo()
                if future:
                    want = future.pop()
                    past.append(before)
                    if ret is not True or snap(e) != want:
                        bad = f"redo did not return to the situation the undo left: {json.dumps(fam_codec.first_diff(want, snap(e), ''))[:300]}"
                elif ret is not False:
                    bad = "redo with nothing to redo answered True"
            if bad:
                rep.violations.append({"cls": None, "family": "c04-stdlib", "what": bad, "source": SHOP_STORY, "ops": ops, "step": len(ops) - 1})
                break
        done += 1
    rep.coverage.setdefault("families", {})["c04-stdlib"] = {"walks": done}
    rep.coverage["evaluations"] = rep.coverage.get("evaluations", 0) + done
