"""C06: value trees through the REAL save -> JSON text -> load path vs the Lean codec model, plus the
property itself (equal value of the same type with working methods) on the real result."""
import copy
import json

from common import rng_for, run_driver, chash, quiet
from compare import first_diff
import framework
import vclasses
import corr_play

STR = ["", "a", "key", "old map"]
KEYS = ["k", "m", "name", "x1"]


def gen_value(r, depth, max_depth, pool=None):
    """returns a Python value from the supported domain; sometimes the SAME object is placed at two
    paths (a shared reference is still an ordinary finite tree as a value)"""
    v = _gen_value(r, depth, max_depth, pool if pool is not None else [])
    return v


def _gen_value(r, depth, max_depth, pool):
    if pool and depth > 0 and r.random() < 0.12:
        return r.choice(pool)
    v = _gen_fresh(r, depth, max_depth, pool)
    if not isinstance(v, (int, str, bool, type(None), tuple)):
        pool.append(v)
    return v


def _gen_fresh(r, depth, max_depth, pool):
    def gen_value(r_, d_, m_):
        return _gen_value(r_, d_, m_, pool)
    k = r.random()
    if depth >= max_depth or k < 0.3:
        c = r.random()
        if c < 0.15:
            return None
        if c < 0.3:
            return r.random() < 0.5
        if c < 0.65:
            return r.randint(-5, 50)
        return r.choice(STR)
    if k < 0.45:
        return [gen_value(r, depth + 1, max_depth) for _ in range(r.randint(0, 3))]
    if k < 0.52:
        return tuple(gen_value(r, depth + 1, max_depth) for _ in range(r.randint(0, 3)))
    if k < 0.67:
        d_ = {kk: gen_value(r, depth + 1, max_depth) for kk in r.sample(KEYS, r.randint(0, 3))}
        if r.random() < 0.2:
            # a story's own dict that uses the keys the save format reserves for object records
            for kk in r.sample(["_type", "_data", "_module", "_value", "_custom"], r.randint(1, 3)):
                d_[kk] = r.choice(["weapon", "Card", "string_repr", "dict"]) if r.random() < 0.5 else gen_value(r, depth + 1, max_depth)
            items_ = list(d_.items())
            r.shuffle(items_)
            d_ = dict(items_)
        return d_
    if k < 0.70:
        return vclasses.Rune(r.choice(STR), r.randint(0, 9))
    if k < 0.725:
        if r.random() < 0.5:
            rune = lambda: vclasses.Rune(r.choice(STR), r.randint(0, 9))  # noqa
            return vclasses.Kit(r.choice(STR), rune() if r.random() < 0.7 else gen_value(r, depth + 1, max_depth),
                                [rune() for _ in range(r.randint(0, 2))], {kk: rune() for kk in r.sample(KEYS, r.randint(0, 2))})
        return vclasses.Bonus(r.randint(0, 9), r.choice(STR))
    if k < 0.77:
        return vclasses.Card(r.choice(STR), r.randint(0, 21))
    if k < 0.85:
        return vclasses.Deck([gen_value(r, depth + 1, max_depth) for _ in range(r.randint(0, 2))], r.choice(STR),
                             {kk: gen_value(r, depth + 1, max_depth) for kk in r.sample(KEYS, r.randint(0, 2))})
    if k < 0.93:
        if r.random() < 0.25:
            # a custom-serialised object whose own record uses the keys the save format reserves
            return vclasses.Relic(r.choice(["weapon", "dict", "string_repr", "Card"]), r.randint(0, 9))
        return vclasses.Purse(r.randint(0, 30), [gen_value(r, depth + 1, max_depth) for _ in range(r.randint(0, 2))], r.choice(STR))
    if k < 0.95:
        from bardic.stdlib.economy import Wallet
        return Wallet(r.randint(0, 90))
    if k < 0.985:
        from bardic.stdlib.inventory import Inventory
        inv = (Inventory(r.randint(5, 20)) if r.random() < 0.5 or vclasses.Backpack is None
               else vclasses.Backpack(r.randint(5, 20), r.choice(["Mira", "Ayla"]), r.randint(1, 6)))
        for _ in range(r.randint(0, 3)):
            inv.add({"name": r.choice(["Sword", "Gem", "Anvil"]), "weight": r.randint(0, 6), "value": r.randint(0, 9)})
        if r.random() < 0.4:
            inv.max_weight = r.randint(0, 4)       # the story lowered the limit later: the inventory is over capacity now
        return inv
    from bardic.stdlib.relationship import Relationship
    rel = Relationship("Alex", r.randint(0, 100), r.randint(0, 100), r.randint(-10, 10))
    for t_ in r.sample(["past", "family", "work"], r.randint(0, 2)):
        rel.discuss_topic(t_)
    return rel


def registry():
    from bardic.stdlib.economy import Wallet, Shop
    from bardic.stdlib.inventory import Inventory
    from bardic.stdlib.relationship import Relationship
    reg = {"Shop": Shop, "Card": vclasses.Card, "Deck": vclasses.Deck, "Purse": vclasses.Purse, "Rune": vclasses.Rune, "Kit": vclasses.Kit, "Bonus": vclasses.Bonus, "Wallet": Wallet,
           "Inventory": Inventory, "Relationship": Relationship}
    if vclasses.Backpack is not None:
        reg["Backpack"] = vclasses.Backpack
    if getattr(vclasses, "Companion", None) is not None:
        reg["Companion"] = vclasses.Companion
        reg["Coffer"] = vclasses.Coffer
    reg.update({"Hand": vclasses.Hand, "Ledger": vclasses.Ledger, "Relic": vclasses.Relic})
    return reg


def kind_of(cls):
    return "custom" if hasattr(cls, "to_save_dict") else "auto"


def describe(v):
    """tagged description of a value (the model's PyVal)"""
    if v is None:
        return {"t": "none"}
    if isinstance(v, bool):
        return {"t": "bool", "v": v}
    if isinstance(v, int):
        return {"t": "int", "v": v}
    if isinstance(v, str):
        return {"t": "str", "v": v}
    if isinstance(v, list):
        return {"t": "list", "v": [describe(x) for x in v]}
    if isinstance(v, tuple):
        return {"t": "tuple", "v": [describe(x) for x in v]}
    if isinstance(v, dict):
        return {"t": "dict", "v": [[k, describe(x)] for k, x in v.items()]}
    cls = type(v)
    if hasattr(v, "to_save_dict"):
        try:
            attrs = v.to_save_dict()
        except Exception as e:  # noqa  (a rebuilt object that lost its attributes cannot even describe itself)
            return {"t": "obj", "cls": cls.__name__, "mod": cls.__module__, "kind": "custom", "attrs": [["<to_save_dict raises>", {"t": "str", "v": type(e).__name__}]]}
        return {"t": "obj", "cls": cls.__name__, "mod": cls.__module__, "kind": "custom",
                "attrs": [[k, describe(x)] for k, x in attrs.items()]}
    return {"t": "obj", "cls": cls.__name__, "mod": cls.__module__, "kind": "auto",
            "attrs": [[k, describe(x)] for k, x in vars(v).items()]}


def canon(d):
    """descriptions compared up to dict / attribute order; sets inside stdlib data are lists in the data"""
    if isinstance(d, dict) and d.get("t") in ("dict",):
        return {"t": "dict", "v": sorted([[k, canon(x)] for k, x in d["v"]], key=lambda p: p[0])}
    if isinstance(d, dict) and d.get("t") == "obj":
        return dict(d, attrs=sorted([[k, canon(x)] for k, x in d["attrs"]], key=lambda p: p[0]))
    if isinstance(d, dict) and d.get("t") in ("list", "tuple"):
        vs = [canon(x) for x in d["v"]]
        return {"t": d["t"], "v": vs}
    return d


def methods_work(v):
    """every rebuilt object must still have working methods"""
    if isinstance(v, (list, tuple)):
        return all(methods_work(x) for x in v)
    if isinstance(v, dict):
        return all(methods_work(x) for x in v.values())
    if isinstance(v, vclasses.Card):
        return v.label() == f"{v.name}#{v.number}"
    if isinstance(v, vclasses.Rune):
        return v.label() == f"{v.glyph}^{v.power}"
    if isinstance(v, vclasses.Bonus):
        return v(10) == 10 + v.amount
    if isinstance(v, vclasses.Kit):
        return v.size() == 1 + len(v.spare) and methods_work(v.main) and methods_work(v.spare) and methods_work(v.notes)
    if isinstance(v, vclasses.Deck):
        return v.count() == len(v.cards) and methods_work(v.cards) and methods_work(v.notes)
    if isinstance(v, vclasses.Purse):
        return v.worth() == v.coins + len(v.items) and methods_work(v.items)
    if isinstance(v, vclasses.Relic):
        return v.describe() == f"{v.kind}:{v.power}"
    t = type(v).__name__
    if t == "Wallet":
        return v.can_afford(0) and v.gold >= 0
    if t == "Inventory":
        return v.current_weight >= 0
    if t == "Backpack":
        return v.current_weight >= 0 and v.describe().startswith(str(v.owner))
    if t == "Relationship":
        return isinstance(v.relationship_quality, str)
    return True


PROPS_SEEN = ("gold", "trust", "comfort", "openness", "coins", "current_weight", "discount", "sell_back_rate")


def _answers(v):
    try:
        return observe(v.top() if isinstance(v, vclasses.Hand) else (v.total() if isinstance(v, vclasses.Ledger) else v.describe()))
    except Exception as e:  # noqa
        return f"<raises {type(e).__name__}>"


def observe(v):
    """what a story can see of a value, independent of how it is serialised: public attributes, the stdlib's
    read-only properties, container structure (tuples read as lists)"""
    if type(v) in (vclasses.Hand, vclasses.Ledger, vclasses.Relic):
        # an object first, a container second: its class, what it holds, its attributes, what its methods answer
        return {"__class__": type(v).__name__, "holds": observe(list(v)) if isinstance(v, list) else (observe(dict(v)) if isinstance(v, dict) else None),
                "attrs": {k: observe(x) for k, x in vars(v).items() if not k.startswith("_")},
                "answers": _answers(v)}
    if isinstance(v, (list, tuple)):
        return [observe(x) for x in v]
    if isinstance(v, (set, frozenset)):
        # a set is not a list (`.add`, `in`, no order): told apart from one
        return {"__set__": sorted((observe(x) for x in v), key=repr)}
    if isinstance(v, dict):
        # a dict is seen in its iteration order (`@for k in d`, `list(d)[0]`): pairs, not a mapping
        return {"__dict__": [[str(k), observe(x)] for k, x in v.items()]}
    if v is None or isinstance(v, (bool, int, float, str)):
        return v
    out = {"__class__": type(v).__name__}
    for k, x in vars(v).items():
        if not k.startswith("_"):
            out[k] = observe(x)
    # what `obj.attr` shows for class-level defaults of a story's own subclass (the instance value when it has one)
    for klass in type(v).__mro__:
        if klass.__module__ == "vclasses":
            for k, x in vars(klass).items():
                if not k.startswith("_") and not callable(x) and not isinstance(x, (property, classmethod, staticmethod)) and k not in out:
                    out[k] = observe(getattr(v, k))
    for p_ in PROPS_SEEN:
        if hasattr(type(v), p_):
            try:
                out["." + p_] = observe(getattr(v, p_))
            except Exception:  # noqa
                out["." + p_] = "<raises>"
    return out


def real_roundtrip(value):
    from bardic.runtime.engine import BardEngine
    story = {"version": "0.1.0", "initial_passage": "Start", "metadata": {}, "imports": [],
             "passages": {"Start": {"id": "Start", "params": [], "content": [{"type": "text", "value": "x"}], "choices": [], "execute": []}}}
    with quiet():
        e = BardEngine(copy.deepcopy(story), context=dict(registry()))
        e.state["v"] = value
        doc = e.save_state()
        text = json.dumps(doc)
        jd = json.loads(text)
        e2 = BardEngine(copy.deepcopy(story), context=dict(registry()))
        e2.load_state(jd)
    return jd["state"]["v"], e2.state["v"]


def _chunk(arg):
    seed, idxs, max_depth = arg
    out = {"cases": 0, "agree": 0, "fails": [], "disagreements": [], "samples": [], "hashes": [], "depths": {}, "objs": 0}
    cases, vals = [], []
    reg = [[n, c.__module__, kind_of(c)] for n, c in registry().items()]
    for idx in idxs:
        r = rng_for(seed, "codec", idx)
        v = gen_value(r, 0, r.randint(1, max_depth))
        d = describe(v)
        cases.append({"kind": "codec", "id": f"s{seed}-codec-{idx}", "registry": reg, "value": d})
        vals.append(v)
    models = run_driver(cases)
    for c, v, m in zip(cases, vals, models):
        out["cases"] += 1
        if '"obj"' in json.dumps(c["value"]):
            out["objs"] += 1
        try:
            enc_real, loaded = real_roundtrip(v)
        except Exception as e:  # noqa
            out["fails"].append({"cls": None, "what": f"save/load raised {type(e).__name__}: {str(e)[:120]}", "family": "c06-codec",
                                 "id": c["id"], "value": c["value"]})
            continue
        d_loaded = describe(loaded)
        # model vs implementation
        dis = first_diff(m.get("enc"), enc_real, "/enc") or first_diff(canon(m.get("dec")), canon(d_loaded), "/dec")
        if dis:
            out["disagreements"].append({"family": "c06-codec", "id": c["id"], "detail": dis, "value": c["value"]})
        else:
            out["agree"] += 1
        # the property on the real result, independent of the model and of any to_save_dict: what a story can observe
        # of the value (public attributes, properties, structure) is the same before and after
        if m.get("supported") and observe(loaded) != observe(v):
            out["fails"].append({"cls": None, "what": "the rebuilt value differs observably from the saved one: "
                                 + json.dumps(first_diff(observe(v), observe(loaded), ""))[:200],
                                 "family": "c06-codec", "id": c["id"], "value": c["value"]})
        # equal value of the same type, tuples as lists, methods working
        if m.get("supported"):
            if canon(d_loaded) != canon(m.get("norm")):
                out["fails"].append({"cls": None, "what": "value did not survive save -> JSON -> load as an equal value of the same type",
                                     "family": "c06-codec", "id": c["id"], "value": c["value"], "loaded": d_loaded})
            else:
                try:
                    ok = methods_work(loaded)
                except Exception as e:  # noqa
                    ok = False
                if not ok:
                    out["fails"].append({"cls": None, "what": "a rebuilt object's methods do not work", "family": "c06-codec",
                                         "id": c["id"], "value": c["value"]})
        out["hashes"].append(chash(c["value"]))
    if cases:
        out["samples"].append(cases[len(cases) // 2]["value"])
    return out


def gen_stdlib_value(r, depth=0):
    """stdlib game objects as stories use them (floats, extra attributes set by the story, shops): real code only"""
    from bardic.stdlib.economy import Wallet, Shop
    from bardic.stdlib.inventory import Inventory
    from bardic.stdlib.relationship import Relationship
    k = r.random()
    if depth < 2 and k < 0.25:
        return [gen_stdlib_value(r, depth + 1) for _ in range(r.randint(1, 3))]
    if depth < 2 and k < 0.45:
        return {kk: gen_stdlib_value(r, depth + 1) for kk in r.sample(["shop", "npc", "purse", "bag", "a"], r.randint(1, 3))}
    if k < 0.52:
        c_ = r.random()
        if c_ < 0.4:
            return vclasses.Hand([r.randint(0, 9) for _ in range(r.randint(0, 3))] + ([{"_type": "joker"}] if r.random() < 0.3 else []), r.choice(["Ann", "Bo"]))
        if c_ < 0.7:
            return vclasses.Ledger({kk: r.randint(0, 9) for kk in r.sample(["rent", "food", "_type", "x"], r.randint(0, 3))}, r.choice(["gold", "shells"]))
        return vclasses.Relic(r.choice(["weapon", "dict", "string_repr", "Card"]), r.randint(0, 9))
    if k < 0.65:
        items = [{"name": r.choice(["Sword", "Gem", "Rope"]), "value": r.randint(0, 90), "weight": r.randint(0, 5)} for _ in range(r.randint(0, 3))]
        sh = Shop(items, r.choice([0.5, 0.25, 1.0]), r.choice([1.0, 0.5, 0.75, 0.9]))
        if r.random() < 0.4 and hasattr(sh, "set_discount"):
            sh.set_discount(r.choice([0.5, 0.8, 0.1]))
        return sh
    if k < 0.8:
        if getattr(vclasses, "Companion", None) is not None and r.random() < 0.4:
            # subclasses whose class-level defaults the instance has moved away from (through a hook, or set by the story)
            if r.random() < 0.6:
                c_ = vclasses.Companion(r.choice(["Alex", "Mira"]), r.randint(40, 70), r.randint(0, 100), r.randint(-10, 10))
                c_.add_trust(r.randint(0, 30))
                if r.random() < 0.5:
                    c_.nickname = r.choice(["Lex", ""])
                return c_
            f_ = vclasses.Coffer(r.randint(0, 90))
            if r.random() < 0.7:
                f_.currency = r.choice(["silver", "gold", "shells"])
            if r.random() < 0.4:
                f_.locked = True
            return f_
        rel = Relationship(r.choice(["Alex", "Mira"]), r.randint(0, 100), r.randint(0, 100), r.randint(-10, 10))
        if r.random() < 0.6:
            rel.mood = r.choice(["wary", "warm"])          # an attribute the story itself put on the object
        if r.random() < 0.3:
            rel.gifts = [r.randint(0, 5)]
        for t_ in r.sample(["past", "family", "work"], r.randint(0, 2)):
            rel.discuss_topic(t_)
        return rel
    if k < 0.9:
        w = Wallet(r.randint(0, 90))
        if r.random() < 0.4:
            w.owner = "Ayla"
        return w
    inv = Inventory(r.randint(5, 20))
    for _ in range(r.randint(0, 3)):
        inv.add({"name": r.choice(["Sword", "Gem"]), "weight": r.randint(0, 6), "value": r.randint(0, 9)})
    return inv


def stdlib_observation_family(rep, n):
    """C05 / C06 on stdlib objects as stories keep them: what a story can observe of the value is the same after
    save -> JSON text -> load into a fresh engine (real code only; floats and story-set attributes are outside the codec model)"""
    fails = 0
    for idx in range(n):
        r = rng_for(rep.seed, "stdlib-obs", idx)
        v = gen_stdlib_value(r)
        before = observe(v)
        try:
            _, loaded = real_roundtrip(v)
        except Exception as e:  # noqa
            rep.violations.append({"cls": None, "family": "stdlib-observation", "what": f"save/load of a stdlib value raised {type(e).__name__}: {str(e)[:120]}",
                                   "value": json.dumps(before)[:600]})
            fails += 1
            continue
        after = observe(loaded)
        if after != before:
            rep.violations.append({"cls": None, "family": "stdlib-observation",
                                   "what": "a stdlib game object differs observably after save -> JSON -> load: " + json.dumps(first_diff(before, after, ""))[:240],
                                   "value": json.dumps(before)[:600]})
            fails += 1
    rep.coverage.setdefault("families", {})["stdlib-observation"] = {"cases": n, "failing": fails}
    rep.coverage["evaluations"] = rep.coverage.get("evaluations", 0) + n


def same_name_probe(rep, pid="C06"):
    """two classes with the SAME name from different modules, met by engines of one process one after the other
    (aliased registration / module import, the two ways a class is found when it is not registered under its own name):
    each save is rebuilt with the class its own story imported, whatever other stories were loaded before"""
    import sys
    import types
    from bardic.runtime.engine import BardEngine
    fam = pid.lower() + "-same-name"
    mods = {}
    for mn, body in (("verif_story_one", "class Token:\n    def __init__(self, n):\n        self.n = n\n    def show(self):\n        return 'one:' + str(self.n)\n"),
                     ("verif_story_two", "class Token:\n    def __init__(self, n):\n        self.n = n\n    def show(self):\n        return 'two:' + str(self.n * 2)\n")):
        m = types.ModuleType(mn)
        exec(body, m.__dict__)
        m.Token.__module__ = mn
        sys.modules[mn] = m
        mods[mn] = m
    n = 0
    try:
        for order in (("verif_story_one", "verif_story_two"), ("verif_story_two", "verif_story_one")):
            for style in ("alias", "module", "alias"):
                for mn in order:
                    imp = f"from {mn} import Token as Tk" if style == "alias" else f"import {mn} as lib"
                    mk = "Tk(3)" if style == "alias" else "lib.Token(3)"
                    src = f"{imp}\n:: Start\n~ t = {mk}\n~ many = [{mk}, {{'k': {mk}}}]\nhi\n+ [go] -> Mid\n\n:: Mid\nmid\n+ [go] -> Next\n\n:: Next\n{{t.show()}} {{many[0].show()}} {{many[1]['k'].show()}}\n"
                    want = mods[mn].Token(3).show()
                    n += 1
                    try:
                        with quiet():
                            story = corr_play.compile_source(src)
                            e = BardEngine(copy.deepcopy(story))
                            e.choose(0)         # (the save is taken where loading does not run the statements that made the objects)
                            doc = json.loads(json.dumps(e.save_state()))
                            e2 = BardEngine(copy.deepcopy(story))
                            e2.load_state(doc)
                            out = e2.choose(0).content
                    except Exception as ex:  # noqa
                        rep.violations.append({"cls": None, "family": fam, "what": f"save/load with `{imp}` raised {type(ex).__name__}: {str(ex)[:160]}", "source": src})
                        continue
                    if out.strip() != f"{want} {want} {want}":
                        rep.violations.append({"cls": None, "family": fam, "source": src,
                                               "what": f"after load the objects of the class bound by `{imp}` show {out.strip()!r}, before the save {want!r} "
                                                       f"(an engine for another story with a class of the same name was loaded earlier in this process: order {order}, style {style})"})
        # both modules imported by ONE story: each object comes back as an object of its own class
        src = ("import verif_story_one\nimport verif_story_two\nfrom verif_story_two import Token as Tk2\n:: Start\n~ a = verif_story_one.Token(3)\n~ b = verif_story_two.Token(3)\n~ c = Tk2(1)\nhi\n+ [go] -> Mid\n\n"
               ":: Mid\nmid\n+ [go] -> Next\n\n:: Next\n{a.show()} {b.show()} {c.show()}\n")
        n += 1
        try:
            with quiet():
                story = corr_play.compile_source(src)
                e = BardEngine(copy.deepcopy(story))
                e.choose(0)
                doc = json.loads(json.dumps(e.save_state()))
                e2 = BardEngine(copy.deepcopy(story))
                e2.load_state(doc)
                out = e2.choose(0).content.strip()
            if out != "one:3 two:6 two:2":
                rep.violations.append({"cls": None, "family": fam, "source": src,
                                       "what": f"a story that imports two modules with a class of the same name shows {out!r} after a load; before the save its objects show 'one:3 two:6 two:2'"})
        except Exception as ex:  # noqa
            rep.violations.append({"cls": None, "family": fam, "what": f"two same-named classes in one story: {type(ex).__name__}: {str(ex)[:160]}", "source": src})
    finally:
        for mn in mods:
            sys.modules.pop(mn, None)
    rep.coverage.setdefault("families", {})[fam] = {"cases": n}
    rep.coverage["evaluations"] = rep.coverage.get("evaluations", 0) + n


def codec_family(rep, n_cases, max_depth, nproc=16):
    chunk = max(1, n_cases // (nproc * 2))
    idxs = list(range(n_cases))
    outs = framework.pmap(_chunk, [(rep.seed, idxs[i:i + chunk], max_depth) for i in range(0, n_cases, chunk)], nproc)
    tot = {"cases": 0, "agree": 0, "with_objects": 0}
    hashes = set()
    for o in outs:
        tot["cases"] += o["cases"]
        tot["agree"] += o["agree"]
        tot["with_objects"] += o["objs"]
        rep.violations.extend(o["fails"])
        rep.disagreements.extend(o["disagreements"])
        if len(rep.samples) < 2:
            rep.samples.extend(o["samples"][:1])
        hashes.update(o["hashes"])
    cov = rep.coverage
    cov["evaluations"] = cov.get("evaluations", 0) + tot["cases"]
    cov["programs"] = cov.get("programs", 0) + tot["cases"]
    cov["traces_validated_against_impl"] = cov.get("traces_validated_against_impl", 0) + tot["agree"]
    cov["distinct_nontrivial"] = cov.get("distinct_nontrivial", 0) + len(hashes)
    cov.setdefault("families", {})["c06-codec"] = tot
    return tot


def history_probes(rep, pid="C06"):
    """loads that depend on what the engine met before, and values nested deeper than any generated one:
    (a) a save naming a class the host registers only AFTER a first load failed to find it - the second load rebuilds the objects;
    (b) 150 containers deep, a chain of 130 linked objects: every depth is a depth"""
    from bardic.runtime.engine import BardEngine
    fam = pid.lower() + "-history"
    story = {"version": "0.1.0", "initial_passage": "Start", "metadata": {}, "imports": [],
             "passages": {"Start": {"id": "Start", "params": [], "content": [{"type": "text", "value": "x"}], "choices": [], "execute": []}}}
    n = 0

    def bad(what):
        rep.violations.append({"cls": None, "family": fam, "what": what})
    try:
        with quiet():
            src = BardEngine(copy.deepcopy(story), context=dict(registry()))
            src.state["card"] = vclasses.Card("Fool", 0)
            src.state["purse"] = vclasses.Purse(3, [vclasses.Card("Sun", 19)], "t")
            doc = json.loads(json.dumps(src.save_state()))
            late = BardEngine(copy.deepcopy(story), context={})
            late.load_state(copy.deepcopy(doc))                     # the classes are unknown: dicts, with a warning
            late.context.update(registry())                         # the host registers them
            late.load_state(copy.deepcopy(doc))
        n += 1
        if not isinstance(late.state.get("card"), vclasses.Card) or not isinstance(late.state.get("purse"), vclasses.Purse):
            bad(f"after the host registered the classes, loading the save again gives {type(late.state.get('card')).__name__} / {type(late.state.get('purse')).__name__} "
                "instead of Card / Purse (a first load, made before the classes were registered, is remembered)")
        # (b) depth
        deep = vclasses.Card("bottom", 1)
        for k in range(150):
            deep = [deep] if k % 2 else {"k": deep}
        chain = vclasses.Deck([], "end", {})
        for k in range(130):
            chain = vclasses.Deck([chain], f"d{k}", {})
        for name, v in (("150 containers deep", deep), ("a chain of 130 linked objects", chain)):
            with quiet():
                _, loaded = real_roundtrip(v)
            n += 1
            if observe(loaded) != observe(v):
                bad(f"{name}: the rebuilt value differs from the saved one: " + json.dumps(first_diff(observe(v), observe(loaded), ""))[:200])
    except Exception as ex:  # noqa
        bad(f"probe failed: {type(ex).__name__}: {str(ex)[:200]}")
    rep.coverage.setdefault("families", {})[fam] = {"cases": n}
    rep.coverage["evaluations"] = rep.coverage.get("evaluations", 0) + n
