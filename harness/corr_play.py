"""Engine-play correspondence: generated source -> REAL compiler -> real engine vs Lean model engine
(loading the real compiler's JSON), same history, every observation compared."""
import copy
import json
import sys
import time

from common import quiet, time_limit, Timeout, run_driver, rng_for, chash
import gen_story
import real_play
from compare import compare_play

READS = ["current", "has_choices", "is_end", "choice_texts", "choice_targets", "story_info", "save_meta",
         "can_undo", "can_redo"]


def compile_source(src):
    from bardic.compiler.compiler import BardCompiler
    try:
        with quiet(), time_limit(10):
            return BardCompiler().compile_string(src)
    except Timeout:
        raise TimeoutError("compile_string does not terminate within 10 s")


def walk(rng, story, n_ops, variant="main", weights=None, per_call_s=5.0, prefer=None):
    """Random walk on the REAL engine; returns (ops, real_answer)."""
    w = dict(choose=55, bad=5, undo=8, redo=6, goto=4, save=3, load=2, fresh=2, read=13, reset=1, loadbad=1)
    if weights:
        w.update(weights)
    rp = real_play.RealPlay(story, variant, per_call_s)
    try:
        st, init = rp.start()
        if st != "ok":
            return [], {"status": st, "raise": init}
        ops, steps = [], []
        names = list(story["passages"].keys())
        kinds = list(w.keys())
        taken, again = [], None      # accepted choice indices; the index just undone (to take the same choice again)
        rechoose = w.pop("rechoose", 0)
        kinds = list(w.keys())
        for _ in range(n_ops):
            cur = rp.engine._current_output
            n = len(cur.choices) if cur is not None else 0
            k = rng.choices(kinds, [w[x] for x in kinds])[0]
            if again is not None and again < n and rng.random() < rechoose:
                k = "again"
            if k == "choose" and n == 0:
                k = rng.choice(["undo", "goto", "read"])
            if k == "again":
                op = {"op": "choose", "i": again}
            elif k == "choose":
                op = {"op": "choose", "i": rng.randrange(n)}
                if prefer:
                    # steer towards the call site under test when it is on offer
                    want = [i for i, c in enumerate(cur.choices) if c.get("target", "").strip() in prefer]
                    if want and rng.random() < 0.8:
                        op = {"op": "choose", "i": rng.choice(want)}
            elif k == "bad":
                op = {"op": "choose", "i": rng.choice([-1, -2, n, n + 1, n + 7])}
            elif k == "undo":
                op = {"op": "undo"}
            elif k == "redo":
                op = {"op": "redo"}
            elif k == "goto":
                t = rng.choice([n for n in names if n != "Start"] + ["Nowhere"])
                ps = story["passages"].get(t, {}).get("params", [])
                spec = t
                if ps and rng.random() < 0.8:
                    spec = t + "(" + ", ".join(str(rng.randint(0, 5)) for _ in ps) + ")"
                elif rng.random() < 0.1:
                    spec = t + "(1"
                op = {"op": "goto", "spec": spec}
            elif k == "save":
                op = {"op": "save"}
            elif k in ("load", "fresh"):
                if not rp.raw_slots:
                    op = {"op": "save"}
                else:
                    op = {"op": "load" if k == "load" else "fresh_load", "slot": rng.randrange(len(rp.raw_slots))}
            elif k == "read":
                op = {"op": rng.choice(READS)}
            elif k == "reset":
                op = {"op": "reset_one_time"}
            else:
                op = {"op": "load_bad", "kind": rng.choice(["notDict", "noVersion"])}
                if op["kind"] == "noVersion" and not rp.raw_slots:
                    op = {"op": "load_bad", "kind": "notDict"}
            ops.append(op)
            steps.append(rp.op(op))
            resp = steps[-1]["resp"]
            if op["op"] == "choose" and 0 <= op["i"] < n:
                taken.append(op["i"])
                again = None
            elif op["op"] == "undo" and resp.get("ret") is True and taken:
                again = taken.pop()
            elif op["op"] not in READS:
                again = None
                if op["op"] != "redo":
                    taken = taken if op["op"] in ("save",) else ([] if op["op"] in ("load", "fresh_load") else taken)
        return ops, {"status": "ok", "init": init, "steps": steps, "timeouts": rp.timeouts}
    except real_play.Unmodelled as u:
        return [], {"status": "unmodelled", "notes": [str(u)]}


def make_case(seed, idx, features=None, n_ops=14, variant="main", weights=None, max_depth=2):
    """Generate one case: returns dict with source, story (compiled) or compile error, ops, real answer."""
    rng = rng_for(seed, "play", idx)
    ast = gen_story.generate(rng.randrange(1 << 30), features, max_depth=max_depth)
    src = gen_story.print_story(ast)
    case = {"id": f"s{seed}-{idx}", "source": src, "stats": ast["stats"], "variant": variant}
    try:
        story = compile_source(src)
    except Timeout:
        case["compile_error"] = "Timeout"
        return case
    except Exception as e:  # noqa
        case["compile_error"] = f"{type(e).__name__}: {str(e)[:200]}"
        return case
    case["story"] = story
    ops, real = walk(rng, story, n_ops, variant, weights)
    case["ops"] = ops
    case["real"] = real
    return case


def run_cases(cases):
    """Send the compiled cases to the Lean driver and compare.  Returns list of result dicts."""
    todo = [c for c in cases if "story" in c and c["real"].get("status") != "unmodelled"]
    lines = [{"id": c["id"], "kind": "play", "variant": c["variant"], "story": c["story"], "ops": c["ops"]} for c in todo]
    outs = run_driver(lines) if lines else []
    res = []
    for c, m in zip(todo, outs):
        verdict, detail = compare_play(m, c["real"])
        res.append({"id": c["id"], "verdict": verdict, "detail": detail, "model": m, "case": c})
    return res


if __name__ == "__main__":
    seed = int(sys.argv[1]) if len(sys.argv) > 1 else 0
    n = int(sys.argv[2]) if len(sys.argv) > 2 else 50
    t0 = time.time()
    cases = [make_case(seed, i) for i in range(n)]
    t1 = time.time()
    ce = [c for c in cases if "compile_error" in c]
    res = run_cases(cases)
    t2 = time.time()
    tally = {}
    for r in res:
        tally[r["verdict"]] = tally.get(r["verdict"], 0) + 1
    print(f"cases={n} compile_errors={len(ce)} {tally} gen+real={t1 - t0:.1f}s model={t2 - t1:.1f}s")
    for c in ce[:3]:
        print("COMPILE ERROR", c["id"], c["compile_error"])
        print(c["source"])
    shown = 0
    for r in res:
        if r["verdict"] == "disagree" and shown < 3:
            shown += 1
            print("DISAGREE", r["id"], r["detail"])
            print(r["case"]["source"])
            print(json.dumps(r["case"]["ops"]))
        if r["verdict"] == "unmodelled" and shown < 3:
            print("UNMODELLED", r["id"], r["detail"])


def run_fixed(source, ops, variant="main", case_id="fixed"):
    """A fixed case (replay / witness): compile `source` with the real compiler, run `ops` on the real engine."""
    case = {"id": case_id, "source": source, "variant": variant, "stats": {}}
    try:
        story = compile_source(source)
    except Exception as e:  # noqa
        case["compile_error"] = f"{type(e).__name__}: {str(e)[:200]}"
        return case
    case["story"] = story
    case["ops"] = ops
    case["real"] = real_play.play(story, ops, variant)
    return case
