"""C15 fault injection (metamorphic, on the REAL engine only).

For a fault-free generated story and a recorded history, one author-code site of the compiled story is
made to fail and the same history is replayed:
  * statement / block / argument / default sites: the first difference from the fault-free run must be
    an exception of class RuntimeError or ValueError raised by the call during which the site is reached
    (never a silent difference = a discarded statement); afterwards no scope is left and one undo()
    restores exactly the pre-call situation;
  * display-expression sites: no new exception anywhere, variables identical, an {ERROR marker appears;
  * condition sites (branch / choice / inline): behaves exactly like the condition `False`
    (inline: like a marker; no exception, variables identical).
"""
import copy
import json

from common import rng_for, chash
import corr_play
import gen_story
import real_play
import framework
from compare import norm
from oracles import strip_hist

BAD = "nope_undefined_xyz + 1"
BAD_COND = "nope_undefined_xyz > 1"
ALLOWED = ("RuntimeError", "ValueError", "RecursionError")


def sites(story):
    """[(path, kind)] of author-code sites; path = list of keys/indices into the story dict"""
    out = []

    def walk_tokens(toks, path, in_choice_text=False):
        for i, t in enumerate(toks):
            p = path + [i]
            ty = t.get("type")
            if ty == "python_statement":
                out.append((p + ["code"], "stmt"))
            elif ty == "python_block":
                out.append((p + ["code"], "block"))
            elif ty == "expression" and not in_choice_text:
                out.append((p + ["code"], "expr"))
            elif ty == "inline_conditional" and not in_choice_text:
                out.append((p + ["condition"], "inline"))
            elif ty == "render_directive" and t.get("args"):
                out.append((p + ["args"], "render"))
            elif ty == "conditional":
                for bi, b in enumerate(t.get("branches", [])):
                    if b.get("condition") not in (None, "True"):
                        out.append((p + ["branches", bi, "condition"], "branch"))
                    walk_tokens(b.get("content", []), p + ["branches", bi, "content"])
                    walk_choices(b.get("choices", []), p + ["branches", bi, "choices"], block=True)
            elif ty == "for_loop":
                out.append((p + ["collection"], "coll"))
                walk_tokens(t.get("content", []), p + ["content"])
                walk_choices(t.get("choices", []), p + ["choices"], block=True)

    def walk_choices(chs, path, block=False):
        for i, c in enumerate(chs):
            p = path + [i]
            if c.get("condition"):
                out.append((p + ["condition"], "choicecond"))
            if c.get("args") and not block:
                out.append((p + ["args"], "args"))
            walk_tokens(c.get("block_content", []), p + ["block_content"])

    for pid, p in story["passages"].items():
        base = ["passages", pid]
        walk_tokens(p.get("execute", []), base + ["execute"])
        walk_tokens(p.get("content", []), base + ["content"])
        walk_choices(p.get("choices", []), base + ["choices"])
        for i, prm in enumerate(p.get("params", [])):
            if prm.get("default") is not None:
                out.append((base + ["params", i, "default"], "default"))
    return out


def setp(story, path, value):
    s = copy.deepcopy(story)
    o = s
    for k in path[:-1]:
        o = o[k]
    old = o[path[-1]]
    o[path[-1]] = value
    # a statement in a join block is stored twice (block_execute is never run, keep it consistent anyway)
    return s, old


def scrub(x):
    """drop the fields that merely echo the mutated code (a choice's `args` / `condition` text)"""
    if isinstance(x, list):
        return [scrub(v) for v in x]
    if isinstance(x, dict):
        if "target" in x and "sticky" in x:
            return {k: scrub(v) for k, v in x.items() if k not in ("args", "condition")}
        return {k: scrub(v) for k, v in x.items()}
    return x


def nrm(x):
    return scrub(norm(x))


def first_diff_step(a, b):
    for i, (x, y) in enumerate(zip(a["steps"], b["steps"])):
        if nrm(x) != nrm(y):
            return i
    return None


def check_site(story, ops, base, path, kind):
    """returns list of failure dicts"""
    fails = []
    def fail(what, cls=None, step=None):
        fails.append({"cls": cls, "what": what, "step": step, "site": "/".join(map(str, path)), "skind": kind})
    if kind in ("stmt", "block", "args", "default", "render", "coll"):
        bad = BAD if kind != "args" else "nope_undefined_xyz"
        if kind == "render":
            bad = "nope_undefined_xyz"
        var, old = setp(story, path, bad)
        # the same statement object text also sits in block_execute for join blocks: irrelevant (never run)
        res = real_play.play(var, ops)
        if res.get("status") == "init_error":
            if base.get("status") == "ok" and res.get("raise") not in ALLOWED:
                fail(f"constructor failed with {res.get('raise')}")
            return fails
        if res.get("status") != "ok" or base.get("status") != "ok":
            return fails
        j = first_diff_step(base, res)
        if nrm(base["init"]) != nrm(res["init"]):
            if kind in ("stmt", "block", "coll", "default", "args"):
                fail("the constructor's result differs silently although a reached statement fails", step=-1)
            return fails
        if j is None:
            return fails
        r = res["steps"][j]["resp"]
        if kind == "render":
            # a failing render directive becomes an error directive; nothing else may change
            if "raise" in r and "raise" not in base["steps"][j]["resp"]:
                fail(f"failing render-directive arguments raised {r['raise']}", step=j)
            elif norm(res["steps"][j]["state"]["vars"]) != norm(base["steps"][j]["state"]["vars"]):
                fail("failing render-directive arguments changed the variables", step=j)
            return fails
        if "raise" not in r:
            fail(f"a failing {kind} was silently discarded: first difference at call {j} ({ops[j]['op']}) is not an exception",
                 cls=("C15-loop-collection" if kind == "coll" else None), step=j)
            return fails
        if r["raise"] not in ALLOWED:
            fail(f"a failing {kind} surfaced as {r.get('cls', r['raise'])}, not RuntimeError/ValueError",
                 cls=("C15-default-raw-exception" if kind == "default" else None), step=j)
        st = res["steps"][j]["state"]
        if st["nscopes"] != 0:
            fail("a parameter scope is left over after the failed call", step=j)
        if ops[j]["op"] == "choose":
            # one undo restores exactly the pre-choice situation
            prev = res["steps"][j - 1]["state"] if j > 0 else res["init"]
            rp = real_play.RealPlay(var)
            rp.start()
            for o in ops[:j + 1]:
                rp.op(o)
            u = rp.op({"op": "undo"})
            if u["resp"].get("ret") is not True or nrm(strip_hist(u["state"])) != nrm(strip_hist(prev)):
                fail("undo after the failed choice did not restore the pre-choice situation", step=j)
            nxt = rp.op({"op": "current"})
            if "raise" in nxt["resp"]:
                fail("engine unusable after the failed choice + undo", step=j)
    elif kind == "expr":
        var, old = setp(story, path, "nope_undefined_xyz")
        res = real_play.play(var, ops)
        if res.get("status") != base.get("status"):
            fail(f"a failing display expression changed the constructor outcome to {res.get('status')}")
            return fails
        if res.get("status") != "ok":
            return fails
        seen_marker = False
        for j, (x, y) in enumerate(zip(base["steps"], res["steps"])):
            if ("raise" in y["resp"]) != ("raise" in x["resp"]):
                fail("a failing display expression raised / suppressed an exception", step=j)
                return fails
            if norm(x["state"]["vars"]) != norm(y["state"]["vars"]):
                fail("a failing display expression changed the variables", step=j)
                return fails
            c = (y["state"].get("out") or {}).get("content", "")
            cb = (x["state"].get("out") or {}).get("content", "")
            if c != cb:
                if "{ERROR" not in c:
                    fail("output differs but shows no {ERROR marker", step=j)
                    return fails
                seen_marker = True
    elif kind in ("branch", "choicecond", "inline"):
        varF, _ = setp(story, path, "False")
        varB, _ = setp(story, path, BAD_COND)
        rf = real_play.play(varF, ops)
        rb = real_play.play(varB, ops)
        if rf.get("status") != rb.get("status"):
            fail("a failing condition changed the constructor outcome")
            return fails
        if rf.get("status") != "ok":
            return fails
        if kind == "inline":
            for j, (x, y) in enumerate(zip(rf["steps"], rb["steps"])):
                if ("raise" in y["resp"]) != ("raise" in x["resp"]) or norm(x["state"]["vars"]) != norm(y["state"]["vars"]):
                    fail("a failing inline condition raised or changed the variables", step=j)
                    return fails
        else:
            if nrm(rf["init"]) != nrm(rb["init"]):
                fail(f"a failing {kind} condition does not behave like a false one (constructor)", step=-1)
                return fails
            j = first_diff_step(rf, rb)
            if j is not None:
                fail(f"a failing {kind} condition does not behave like a false one", step=j)
    return fails


def _chunk(arg):
    seed, idxs, n_ops, per_case = arg
    out = {"cases": 0, "sites": 0, "kinds": {}, "fails": [], "samples": [], "hashes": []}
    for idx in idxs:
        rng = rng_for(seed, "fault", idx)
        c = corr_play.make_case(seed, f"fault:{idx}", dict(faults=0, stmt_faults=0, hooks=0.4, join=(0.9 if idx % 3 == 0 else 0.3), params=0.5,
                                                             loops=0.5, conds=0.8, render=0.4),
                                n_ops, "main", dict(choose=(85 if idx % 3 == 0 else 70), goto=6, undo=6, redo=4, read=4, bad=2, save=2, load=2, fresh=2, loadbad=0))
        if "story" not in c or c["real"].get("status") != "ok":
            continue
        out["cases"] += 1
        ss = sites(c["story"])
        rng.shuffle(ss)
        # sites in a section after a @join marker (reached only through `-> @join` choices) first: they are rare
        def after_marker(path):
            if len(path) >= 4 and path[0] == "passages" and path[2] == "content" and isinstance(path[3], int):
                toks = c["story"]["passages"][path[1]]["content"]
                return any(t.get("type") == "join_marker" for t in toks[:path[3]])
            return False
        ss.sort(key=lambda pk: 0 if after_marker(pk[0]) and pk[1] in ("stmt", "block") else 1)
        for path, kind in ss[:per_case]:
            out["sites"] += 1
            out["kinds"][kind] = out["kinds"].get(kind, 0) + 1
            try:
                fs = check_site(c["story"], c["ops"], c["real"], path, kind)
            except real_play.Unmodelled:
                fs = []
            for f in fs:
                f.update({"family": "c15-fault", "id": c["id"], "source": c["source"], "ops": c["ops"], "story_site": path})
                out["fails"].append(f)
            out["hashes"].append(chash([c["source"], c["ops"], path]))
        if len(out["samples"]) < 1 and ss:
            out["samples"].append({"source": c["source"][:1200], "ops": c["ops"][:12], "site": "/".join(map(str, ss[0][0])), "kind": ss[0][1]})
    return out


def fault_family(rep, n_cases, n_ops, per_case, known_classes=(), nproc=16):
    chunk = max(1, n_cases // (nproc * 2))
    idxs = list(range(n_cases))
    args = [(rep.seed, idxs[i:i + chunk], n_ops, per_case) for i in range(0, n_cases, chunk)]
    outs = framework.pmap(_chunk, args, nproc)
    tot = {"cases": 0, "sites": 0, "kinds": {}}
    hashes = set()
    for o in outs:
        tot["cases"] += o["cases"]
        tot["sites"] += o["sites"]
        for k, v in o["kinds"].items():
            tot["kinds"][k] = tot["kinds"].get(k, 0) + v
        for f in o["fails"]:
            if f["cls"] is not None and f["cls"] in known_classes:
                rep.known_hits[f["cls"]] = rep.known_hits.get(f["cls"], 0) + 1
            else:
                rep.violations.append(f)
        rep.samples.extend(o["samples"][:1] if len(rep.samples) < 3 else [])
        hashes.update(o["hashes"])
    cov = rep.coverage
    cov["evaluations"] = cov.get("evaluations", 0) + tot["sites"]
    cov["distinct_nontrivial"] = cov.get("distinct_nontrivial", 0) + len(hashes)
    cov.setdefault("families", {})["c15-fault"] = tot
    return tot


AFTERMATH = [
    # (source, choices before the failing one, index of the failing choice, choices after it): the failing choice's target
    # fails at its FIRST statement (after its arguments were bound), so the failed call changes no variable; whatever
    # is played afterwards - without undo - must look exactly as if the failing choice had never been tried
    (""":: Start
~ who = "nobody"
~ rested = 0
A road.
+ [Enter the camp] -> Camp("Ann")

:: Camp(guest)
The camp of {guest}. On watch: {who}.
+ [Send a scout] -> Scout("Bob")
+ [Rest] -> @join
    ~ rested = rested + 1
    You rest for a while. {who}
@join
Morning. On watch: {who}. Rested {rested}x.
+ [Leave] -> Start
+ [Again] -> Camp("Cy")

:: Scout(who)
~ tracks = 1 / 0
{who} finds tracks.
+ [Back] -> Start
""", [0], 0, [1, 1, 1]),
    (""":: Start
~ who = "nobody"
~ n = 0
A road.
+ [Camp] -> Camp

:: Camp
On watch: {who}.
+ [Scout far] -> Relay("Bob", 3)
+ [Rest] -> @join
    Resting: {who} {n}
@join
+ [Nap] -> @join
    Napping: {who} {n}
@join
Morning: {who} {n}.
+ [Greet] -> Greet
+ [Leave] -> Start

:: Relay(who, n)
-> Scout(who, n + 1)

:: Scout(who, n)
@for k in n:
  never {k}
@endfor
{who} finds tracks.

:: Greet(who="friend")
Hello {who} {n}.
+ [Back] -> Camp
""", [0], 0, [1, 0, 0, 0]),
]


def failed_choice_invisible(rep):
    from bardic.runtime.engine import BardEngine
    from common import quiet
    n = 0
    for src, before, bad, after in AFTERMATH:
        try:
            story = corr_play.compile_source(src)
        except Exception as ex:  # noqa
            rep.violations.append({"cls": None, "family": "c15-aftermath", "what": f"probe story does not compile: {ex}", "source": src})
            continue

        def obs(o):
            return {"content": o.content, "choices": [(c["text"], c["target"]) for c in o.choices], "passage": o.passage_id}

        def play(with_failure):
            trace = []
            with quiet():
                e = BardEngine(copy.deepcopy(story))
                for p in before:
                    e.choose(p)
                if with_failure:
                    try:
                        e.choose(bad)
                        trace.append("the failing choice raised nothing")
                    except (RuntimeError, ValueError):
                        pass
                for p in after:
                    trace.append(obs(e.choose(p)))
                trace.append({k: repr(v) for k, v in e.state.items() if not k.startswith("_")})
            return trace
        try:
            control, failed = play(False), play(True)
        except Exception as ex:  # noqa
            rep.violations.append({"cls": None, "family": "c15-aftermath", "what": f"probe session failed: {type(ex).__name__}: {str(ex)[:200]}", "source": src})
            continue
        n += 1
        if control != failed:
            k = next((j for j in range(min(len(control), len(failed))) if control[j] != failed[j]), 0)
            rep.violations.append({"cls": None, "family": "c15-aftermath", "source": src, "before": before, "failing_choice": bad, "after": after,
                                   "what": ("after a choice failed in author code (its target fails at its first statement, nothing was undone) later play differs "
                                            f"from play in which the failing choice was never tried, at observation {k}: "
                                            f"{json.dumps(control[k])[:300]} vs {json.dumps(failed[k])[:300]}")})
    rep.coverage.setdefault("families", {})["c15-aftermath"] = {"cases": n}
    rep.coverage["evaluations"] = rep.coverage.get("evaluations", 0) + n


EXOTIC = ["RuntimeError", "StopIteration", "AssertionError", "OSError", "GameError", "NotImplementedError", "RecursionError", "MemoryError",
          "EOFError", "ImportError", "BufferError", "ReferenceError", "UserWarning", "StopAsyncIteration", "KeyError", "ZeroDivisionError",
          "UnicodeError", "TimeoutError", "FloatingPointError"]


def exotic_failures(rep, pid):
    """author code may fail with ANY exception class (host functions and game classes raise their own): a choice condition
    hides the choice, a branch condition skips the branch, a display expression becomes a marker, a failing statement surfaces
    as RuntimeError / ValueError - also when the values involved cannot even be printed (a __repr__ that raises)"""
    from bardic.runtime.engine import BardEngine
    from common import quiet

    class GameError(Exception):
        pass

    def boom(kind):
        raise {"GameError": GameError}.get(kind) or getattr(__import__("builtins"), kind)(f"{kind} from game logic")

    class Lamp:
        def __init__(self, capacity):
            self.capacity = capacity
            self.level = 3

        def burn(self):
            self.level = self.level - 6 // self.capacity

        def __repr__(self):
            return f"Lamp({self.level * 100 // self.capacity}%)"

    class Sneaky:
        def __bool__(self):
            raise GameError("no truth value")

        def __str__(self):
            raise GameError("no text")

        def __format__(self, spec):
            raise GameError("no format")

    fam = pid.lower() + "-exotic"
    conds = "".join(f"+ {{boom('{k}')}} [hidden {k}] -> Start\n" for k in EXOTIC)
    shows = "".join(f"v{j} {{boom('{k}')}} end{j}\n@if boom('{k}'):\n  never{j}\n@elif True:\n  taken{j}\n@endif\n" for j, k in enumerate(EXOTIC))
    src = (":: Start\n~ lamp = Lamp(0)\n~ sneaky = Sneaky()\n~ turns = 0\nHub\n" + conds + "+ {sneaky} [hidden truth] -> Start\n+ [ok] -> Show\n+ [burn] -> Burn\n+ [fmt] -> Fmt\n\n"
           ":: Show\n~ turns = turns + 1\n" + shows + "{boom('OSError') ? yes | no} tail\n+ [back] -> Hub2\n\n"
           ":: Hub2\nhub2 {turns}\n+ [burn] -> Burn\n+ [call] -> Call(boom('GameError'))\n+ [dflt] -> Dflt\n+ [ok] -> Show\n\n"
           ":: Burn\n~ lamp.burn()\nnever\n\n:: Call(x)\nnever {x}\n\n:: Dflt(x=boom('StopIteration'))\nnever {x}\n\n"
           ":: Fmt\nshown {sneaky} and {sneaky:>4} and {lamp} end\n+ [back] -> Hub2\n")
    n = 0

    def fail(what, **kw):
        rep.violations.append(dict({"cls": None, "family": fam, "what": what, "source": src,
                                    "context": "boom(kind) raises the named exception class; Lamp(0).burn() and repr(Lamp(0)) divide by zero; Sneaky() raises GameError from __bool__/__str__/__format__"}, **kw))
    try:
        story = corr_play.compile_source(src)
    except Exception as ex:  # noqa
        fail(f"probe story does not compile: {ex}")
        return
    try:
        with quiet():
            e = BardEngine(copy.deepcopy(story), context={"boom": boom, "Lamp": Lamp, "Sneaky": Sneaky})
            start = e.current()
    except BaseException as ex:  # noqa
        fail(f"constructing the engine raised {type(ex).__name__}: {str(ex)[:160]} (a choice condition that cannot be evaluated hides the choice)")
        return
    n += 1
    texts = [c["text"] for c in start.choices]
    if texts != ["ok", "burn", "fmt"]:
        fail(f"offered {texts}; the conditions of all other choices raise, so exactly ['ok', 'burn', 'fmt'] are on offer")
        return

    def step(label, i, expect_raise=False):
        nonlocal n
        n += 1
        try:
            with quiet():
                out = e.choose(i)
        except (RuntimeError, ValueError) as ex:
            if not expect_raise:
                fail(f"{label}: choose raised {type(ex).__name__}: {str(ex)[:160]}")
            return None
        except BaseException as ex:  # noqa
            fail(f"{label}: choose raised {type(ex).__name__} ({str(ex)[:120]}); a failure of author code surfaces as RuntimeError or ValueError")
            return None
        if expect_raise:
            fail(f"{label}: the failing statement / argument was silently discarded (shown: {out.content[:80]!r})")
        return out
    out = step("display expressions and branch conditions that raise", 0)
    if out is not None:
        for j, k in enumerate(EXOTIC):
            seg = out.content.split(f"v{j} ", 1)[-1].split(f"end{j}", 1)[0]
            if "{ERROR" not in seg or f"end{j}" not in out.content:
                fail(f"a display expression raising {k} shows {seg!r} instead of an inline {{ERROR...}} marker")
            if f"never{j}" in out.content or f"taken{j}" not in out.content:
                fail(f"a branch condition raising {k} did not skip its branch (the next branch must be taken)")
        if "tail" not in out.content:
            fail("an inline conditional whose condition raises swallowed the rest of the line")
        out = step("back", 0)
    if out is not None and [c["text"] for c in out.choices] == ["burn", "call", "dflt", "ok"]:
        before = out.content
        for label, i in (("a statement whose failure cannot even be described (repr of the value raises too)", 0),
                         ("an argument expression raising a game exception", 1), ("a default expression raising StopIteration", 2)):
            step(label, i, expect_raise=True)
            with quiet():
                cur = e.current()
            if cur.content != before or cur.passage_id != "Hub2":
                fail(f"after the failed choice ({label}) the engine shows {cur.passage_id}: {cur.content[:60]!r}; the screen before it must still be there")
                break
        step("the engine is usable after the failures", 3)
    with quiet():
        e2 = BardEngine(copy.deepcopy(story), context={"boom": boom, "Lamp": Lamp, "Sneaky": Sneaky})
    e = e2
    out = step("values whose str()/format() raise", 2)
    if out is not None and (out.content.count("{ERROR") < 2 or "end" not in out.content):
        fail(f"display expressions whose value cannot be turned into text show {out.content!r} instead of inline markers")
    rep.coverage.setdefault("families", {})[fam] = {"calls": n, "exception_classes": EXOTIC}
    rep.coverage["evaluations"] = rep.coverage.get("evaluations", 0) + n
