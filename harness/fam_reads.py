"""Reads are invisible (C03, C05, C16) on the REAL engine, with state the generated stories never hold.

The Lean theorems `read_noop` / `reads_noop` say that every read call leaves the whole engine state unchanged; the model's
values are immutable, so a read that *consumes* a value (walks a one-shot iterator, pops from a shared list, advances a
counter object held in the state) lies outside what the model can exhibit.  This family covers that part on the real code:

  the same history is played twice on the same compiled story - once plainly, once with EVERY read-only call of the API
  made (several times) between any two navigation calls - and what the player sees must be identical step by step.

The stories keep one-shot iterators (enumerate / zip / reversed), ranges, sets, tuples, dict views turned lists and
objects with a counting method in their variables across navigation boundaries.
"""
import copy
import json

from common import rng_for, quiet
import corr_play

STORIES = {
    "iterators": (
        "from collections import deque\n"
        ":: Start\n"
        "~ guests = ['Ann', 'Bo', 'Cy']\n"
        "~ seating = enumerate(guests, 1)\n"
        "~ orders = zip(guests, [3, 1, 2])\n"
        "~ plan = {'countdown': reversed([1, 2, 3]), 'marks': [reversed('yx')]}\n"
        "~ span = range(2, 5)\n"
        "~ seen = {'a'}\n"
        "~ pair = (1, 2)\n"
        "~ queue = deque([7, 8])\n"
        "~ n = 0\n"
        "The table is set.\n"
        "+ [Seat them] -> Seat\n"
        "+ [Take orders] -> Orders\n"
        "+ [Count] -> Count\n"
        "\n"
        ":: Seat\n"
        "~ n = n + 1\n"
        "@for i, g in seating:\n"
        "  Seat {i}: {g}\n"
        "@endfor\n"
        "Span {len(span)} {list(span)} seen {sorted(seen)} pair {pair[0] + pair[1]} queue {list(queue)}\n"
        "+ [Take orders] -> Orders\n"
        "+ [Count] -> Count\n"
        "+ [Again] -> Seat\n"
        "\n"
        ":: Orders\n"
        "~ n = n + 1\n"
        "@for g, k in orders:\n"
        "  {g} wants {k}\n"
        "@endfor\n"
        "@for m in plan['marks'][0]:\n"
        "  mark {m}\n"
        "@endfor\n"
        "+ [Seat them] -> Seat\n"
        "+ [Count] -> Count\n"
        "\n"
        ":: Count\n"
        "~ n = n + 1\n"
        "@for c in plan['countdown']:\n"
        "  {c}...\n"
        "@endfor\n"
        "~ seen.add(str(n))\n"
        "~ queue.append(n)\n"
        "Visit {n}\n"
        "+ [Seat them] -> Seat\n"
        "+ [Take orders] -> Orders\n"
        "+ [Again] -> Count\n"
    ),
    "game-objects": (
        "from bardic.stdlib.relationship import Relationship\nfrom bardic.stdlib.inventory import Inventory\nfrom bardic.stdlib.economy import Wallet, Shop\n"
        ":: Start\n~ alex = Relationship('Alex', 50, 50, 0)\n~ alex.mood = 'wary'\n~ bag = Inventory(9)\n~ w = Wallet(20)\n~ shop = Shop([{'name': 'Gem', 'weight': 1, 'value': 3}])\n"
        "Camp.\n+ [talk] -> Talk\n+ [buy] -> Buy\n+ [look] -> Look\n\n"
        ":: Talk\n~ alex.discuss_topic('topic' + str(len(alex.topics_discussed)))\n~ alex.add_trust(4)\nTalked: {sorted(alex.topics_discussed)} {alex.trust} {alex.has_discussed('topic0')}\n+ [talk] -> Talk\n+ [buy] -> Buy\n+ [look] -> Look\n\n"
        ":: Buy\n~ ok = shop.buy('Gem', w, bag)\nBought {ok}: {len(bag.items)} {w.gold} {bag.current_weight}\n+ [talk] -> Talk\n+ [buy] -> Buy\n+ [look] -> Look\n\n"
        ":: Look\n{alex.mood} {type(alex.topics_discussed).__name__} {w.can_afford(3)} {bag.has('Gem')}\n+ [talk] -> Talk\n+ [buy] -> Buy\n+ [look] -> Look\n"
    ),
    "late-iterators": (
        ":: Start\n"
        "~ names = ['x', 'y', 'z']\n"
        "~ turn = 0\n"
        "Start.\n"
        "+ [Prepare] -> Prepare\n"
        "\n"
        ":: Prepare\n"
        "~ turn = turn + 1\n"
        "~ ranking = zip(names, [turn, turn + 1, turn + 2])\n"
        "~ back = reversed(names)\n"
        "Prepared {turn}.\n"
        "+ [Show] -> Show\n"
        "+ [Prepare again] -> Prepare\n"
        "\n"
        ":: Show\n"
        "@for a, b in ranking:\n"
        "  {a}={b}\n"
        "@endfor\n"
        "@for a in back:\n"
        "  <{a}>\n"
        "@endfor\n"
        "+ {turn < 4} [Prepare] -> Prepare\n"
        "+ [Show again] -> Show\n"
    ),
}

READS = ["current", "get_choice_texts", "get_choice_targets", "has_choices", "is_end", "get_story_info", "save_state",
         "get_save_metadata", "can_undo", "can_redo"]


def _obs(out):
    return {"content": out.content, "choices": [(c["text"], c["target"]) for c in out.choices], "passage": out.passage_id}


def _play(story, picks, with_reads, r):
    from bardic.runtime.engine import BardEngine
    trace = []
    with quiet():
        e = BardEngine(copy.deepcopy(story))

        def reads():
            if not with_reads:
                return
            names = list(READS)
            r.shuffle(names)
            for nm in names + names[:3]:
                v = getattr(e, nm)()
                if nm == "save_state":
                    json.dumps(v)
        reads()
        trace.append(_obs(e.current()))
        for p in picks:
            reads()
            if p == "undo":
                trace.append({"undo": e.undo()})
                reads()
                trace.append(_obs(e.current()))
                continue
            if p == "redo":
                trace.append({"redo": e.redo()})
                reads()
                trace.append(_obs(e.current()))
                continue
            n = len(e.current().choices)
            if n == 0:
                break
            try:
                out = e.choose(p % n)
                trace.append(_obs(out))
            except Exception as ex:  # noqa
                trace.append({"raise": type(ex).__name__, "msg": str(ex)[:120]})
            reads()
            trace.append(_obs(e.current()))
    return trace


def reads_invisible(rep, n, pid="C03"):
    fam = pid.lower() + "-reads-exotic"
    done = 0
    for name, src in STORIES.items():
        try:
            story = corr_play.compile_source(src)
        except Exception as ex:  # noqa
            rep.violations.append({"cls": None, "family": fam, "what": f"probe story {name} does not compile: {ex}", "source": src})
            continue
        for i in range(n):
            r = rng_for(rep.seed, "reads-exotic", name, i)
            picks = [r.choice([0, 1, 2, 0, 1, "undo", "redo"]) for _ in range(r.randint(2, 9))]
            try:
                plain = _play(story, picks, False, rng_for(rep.seed, "reads-order", i))
                read = _play(story, picks, True, rng_for(rep.seed, "reads-order", i))
            except Exception as ex:  # noqa
                rep.violations.append({"cls": None, "family": fam, "what": f"probe session failed: {type(ex).__name__}: {str(ex)[:200]}",
                                       "source": src, "picks": picks})
                continue
            done += 1
            if plain != read:
                k = next((j for j in range(min(len(plain), len(read))) if plain[j] != read[j]), min(len(plain), len(read)))
                rep.violations.append({
                    "cls": None, "family": fam,
                    "what": ("read-only calls (current, choice listings, predicates, story info, save_state, save metadata, can_undo/can_redo) "
                             f"made between the navigation calls changed what the player sees at observation {k}: "
                             f"without reads {json.dumps(plain[k] if k < len(plain) else None)[:300]}, with reads {json.dumps(read[k] if k < len(read) else None)[:300]}"),
                    "source": src, "picks": picks})
    rep.coverage.setdefault("families", {})[fam] = {"cases": done, "stories": sorted(STORIES), "reads": READS}
    rep.coverage["evaluations"] = rep.coverage.get("evaluations", 0) + done


ONCE_STORY = (
    ":: Start\n~ deck = [1, 2, 3, 4, 5, 6, 7, 8, 9]\n~ log = []\n~ seen = []\nTable.\n+ [Draw] -> Show(deck.pop(0))\n+ [Via] -> Via\n\n"
    ":: Show(card, extra=log.append('d') or len(log))\n~ seen.append(card)\nCard {card} extra {extra} left {len(deck)}\n"
    "+ [Draw] -> Show(deck.pop(0))\n+ [Named] -> Show(card=deck.pop(0), extra=log.append('k') or 0)\n+ [Via] -> Via\n"
    "@if len(deck) > 2:\n  + [Block draw] -> Show(deck.pop(0))\n@endif\n\n"
    ":: Via\nvia\n-> Show(deck.pop(0), 9)\n"
)


def once_sessions(rep, n):
    """argument and default expressions of a call are evaluated exactly once per navigation (expressions with effects:
    `-> Show(deck.pop(0))`): each successful choice takes exactly one card, shows the one it took, and evaluates a default
    once when - and only when - it is used"""
    from bardic.runtime.engine import BardEngine
    story = corr_play.compile_source(ONCE_STORY)
    done = 0
    for i in range(n):
        r = rng_for(rep.seed, "once", i)
        picks = [r.randrange(4) for _ in range(r.randint(2, 7))]
        with quiet():
            e = BardEngine(copy.deepcopy(story))
            deck, log, seen = list(e.state["deck"]), 0, []
            ok = True
            for k, p in enumerate(picks):
                ch = e.current().choices
                if not ch or len(e.state["deck"]) == 0:
                    break
                c = ch[p % len(ch)]
                try:
                    out = e.choose(p % len(ch))
                except Exception as ex:  # noqa
                    rep.violations.append({"cls": None, "family": "c03-once", "what": f"choice {k} raised {type(ex).__name__}: {str(ex)[:120]}", "source": ONCE_STORY, "picks": picks})
                    ok = False
                    break
                card = deck.pop(0)
                seen.append(card)
                uses_default = c["target"] == "Show" and "extra" not in c.get("args", "")
                log += 1 if (uses_default or "log.append" in c.get("args", "")) else 0
                want = f"Card {card} extra {log if uses_default else (0 if 'extra=' in c.get('args', '') else 9)} left {len(deck)}"
                st = e.state
                if st["deck"] != deck or st["seen"] != seen or len(st["log"]) != log or want not in out.content:
                    rep.violations.append({"cls": None, "family": "c03-once", "source": ONCE_STORY, "picks": picks[:k + 1],
                                           "what": (f"after choice {k} ('{c['text']}' -> {c['target']}({c.get('args', '')})) exactly one card should be gone and shown: "
                                                    f"expected deck {deck}, shown cards {seen}, {log} default/keyword evaluations, text '{want}'; "
                                                    f"the engine has deck {st['deck']}, seen {st['seen']}, log {st['log']}, text {out.content.strip()!r}")})
                    ok = False
                    break
        done += 1
    rep.coverage.setdefault("families", {})["c03-once"] = {"cases": done}
    rep.coverage["evaluations"] = rep.coverage.get("evaluations", 0) + done


RETRY_STORY = (":: Start\n~ gold = 100\n~ ledger = []\n~ offers = [3, 9, 5]\n~ rate = 2\n~ tickets = ['a', 'b', 'c']\nDesk.\n+ [block] -> Block\n+ [stmt] -> Stmt\n+ [gen] -> Gen\n\n"
               ":: Block\n@py:\ngold -= 10\nledger.append('fee')\nbest = max(offers, key=lambda o: o * rate)\n@endpy\nBest {best} gold {gold}\n+ [back] -> Start2\n\n"
               ":: Stmt\n~ picked = [tickets.pop(0), max(offers, key=lambda o: o * rate)]\nPicked {picked}\n+ [back] -> Start2\n\n"
               ":: Gen\n@py:\ngold -= 7\ntotal = sum(o * rate for o in offers)\n@endpy\nTotal {total} gold {gold}\n+ [back] -> Start2\n\n"
               ":: Start2\nDesk again {gold} {len(ledger)} {len(tickets)}.\n+ [block] -> Block\n+ [stmt] -> Stmt\n+ [gen] -> Gen\n")


def retry_sessions(rep):
    """a passage's commands run exactly once per entry also when Python's own scoping makes them fail half-way (a lambda or a
    generator expression that reads a story variable inside exec with separate namespaces): the navigation either fails, or
    every effect of the entry happened exactly once - never twice"""
    from bardic.runtime.engine import BardEngine
    story = corr_play.compile_source(RETRY_STORY)
    n = 0
    for picks in ([0], [1], [2], [0, 0, 0], [1, 0, 1], [2, 0, 2, 0, 0]):
        with quiet():
            e = BardEngine(copy.deepcopy(story))
            for k, p in enumerate(picks):
                before = {"gold": e.state["gold"], "ledger": len(e.state["ledger"]), "tickets": len(e.state["tickets"])}
                ch = e.current().choices
                tgt = ch[p % len(ch)]["target"]
                try:
                    e.choose(p % len(ch))
                    ok = True
                except (RuntimeError, ValueError):
                    ok = False
                after = {"gold": e.state["gold"], "ledger": len(e.state["ledger"]), "tickets": len(e.state["tickets"])}
                eff = {"Block": {"gold": -10, "ledger": 1, "tickets": 0}, "Stmt": {"gold": 0, "ledger": 0, "tickets": -1},
                       "Gen": {"gold": -7, "ledger": 0, "tickets": 0}}.get(tgt, {"gold": 0, "ledger": 0, "tickets": 0})
                delta = {k_: after[k_] - before[k_] for k_ in after}
                n += 1
                twice = any(abs(delta[k_]) > abs(eff[k_]) for k_ in eff)
                if twice or (ok and delta != eff):
                    rep.violations.append({"cls": None, "family": "c03-retry", "source": RETRY_STORY, "picks": picks[:k + 1],
                                           "what": (f"entering {tgt} ({'returned' if ok else 'raised'}) changed gold / ledger / tickets by {delta}; one run of its commands "
                                                    f"changes them by {eff} (a command ran {'twice' if twice else 'a wrong number of times'})")})
                    break
    rep.coverage.setdefault("families", {})["c03-retry"] = {"entries": n}
    rep.coverage["evaluations"] = rep.coverage.get("evaluations", 0) + n
