"""Canonicalise and diff model/real observations."""
from common import canon_text


def norm(x):
    """Recursively canonicalise: error markers opaque in every string; exception messages dropped."""
    if isinstance(x, str):
        return canon_text(x)
    if isinstance(x, list):
        return [norm(v) for v in x]
    if isinstance(x, dict):
        if "raise" in x:
            return {"raise": x["raise"]}
        return {k: norm(v) for k, v in x.items()}
    return x


def first_diff(a, b, path=""):
    """Path and values of the first difference between two canonical observations, or None."""
    if type(a) != type(b) and not (isinstance(a, (int, bool)) and isinstance(b, (int, bool)) and type(a) == type(b)):
        return (path, a, b)
    if isinstance(a, dict):
        for k in sorted(set(a) | set(b)):
            if k not in a:
                return (path + "/" + k, "<absent>", b[k])
            if k not in b:
                return (path + "/" + k, a[k], "<absent>")
            d = first_diff(a[k], b[k], path + "/" + k)
            if d:
                return d
        return None
    if isinstance(a, list):
        if len(a) != len(b):
            return (path + "/len", len(a), len(b))
        for i, (x, y) in enumerate(zip(a, b)):
            d = first_diff(x, y, f"{path}/{i}")
            if d:
                return d
        return None
    if a != b:
        return (path, a, b)
    return None


def compare_play(model, real):
    """Compare a model answer and a real answer for one play case.

    Returns (verdict, detail): verdict in {"agree", "unmodelled", "disagree"}."""
    ms, rs = model.get("status"), real.get("status")
    if ms == "unmodelled" or rs == "unmodelled":
        return "unmodelled", (model.get("notes") or real.get("notes"))
    if ms != rs:
        return "disagree", ("/status", ms, rs)
    if ms == "init_error":
        if model.get("raise") != real.get("raise"):
            return "disagree", ("/init/raise", model.get("raise"), real.get("raise"))
        return "agree", None
    d = first_diff(norm(model["init"]), norm(real["init"]), "/init")
    if d:
        return "disagree", d
    for i, (m, r) in enumerate(zip(model["steps"], real["steps"])):
        r = {k: v for k, v in r.items() if k != "pre_hook_vars"}      # harness-side observation, not part of the model's answer
        d = first_diff(norm(m), norm(r), f"/steps/{i}")
        if d:
            return "disagree", d
    if len(model["steps"]) != len(real["steps"]):
        return "disagree", ("/steps/len", len(model["steps"]), len(real["steps"]))
    return "agree", None
